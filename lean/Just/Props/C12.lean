import Just.Lemmas.Render
import Just.Model.Loader
/-
C12  Diagnostics point at the offending token.

Model: `Just.Lexer` (a port of src/lexer.rs, tied to the code by the token-for-token differential
check) and `Just.Render.context` (src/token.rs `ColorDisplay for Token`, tied by comparing rendered
diagnostics).  The theorems hold for every source text, of any length, with any mixture of tabs,
CRLF, multi-byte and wide characters (display width is an arbitrary function `w`).
-/
namespace Just.C12
open Just.Lexer Just.Render

/-- what "the position of a token" means, spelled out: the token is a span `lex` of the source
after a prefix `pre`; offset and length count UTF-8 bytes, the line is the number of line feeds in
`pre` and the column the number of bytes after the last of them -/
def Located (src : List Char) (t : Tok) : Prop :=
  ∃ pre lex post, src = pre ++ lex ++ post ∧ t.offset = utf8Len pre ∧ t.length = utf8Len lex
    ∧ t.line = pre.count '\n' ∧ t.column = utf8Len (lastLine pre)

theorem located_of_spans {src : List Char} {t : Tok} (h : Spans src t) : Located src t := by
  obtain ⟨pre, lex, post, h1, h2, h3, h4, h5⟩ := h
  exact ⟨pre, lex, post, h1, by rw [h2, posOf_offset], h5, by rw [h3, posOf_line], by rw [h4, posOf_column]⟩

theorem tokenize_good (src : List Char) : Good src (tokenizeM src (initial src)) :=
  (Preserves.tokenizeM src).run _ (initial_inv src)

theorem tokenize_ok {src : List Char} {toks : List Tok} (h : tokenize src = .ok toks) :
    ∃ s, tokenizeM src (initial src) = .ok ((), s) ∧ s.tokStart.offset = utf8Len src ∧ toks = s.tokens.reverse := by
  unfold tokenize at h
  split at h
  · cases h
  · rename_i s heq
    split at h
    · cases h
    split at h
    · cases h
    split at h
    · cases h
    rename_i h1 h2 h3
    simp only [Except.ok.injEq] at h
    simp only [ne_eq, Decidable.not_not] at h2
    exact ⟨s, heq, h2, h.symm⟩

theorem tokenize_err {src : List Char} {e : Err} (h : tokenize src = .error e) :
    tokenizeM src (initial src) = .error e
    ∨ ∃ s msg, tokenizeM src (initial src) = .ok ((), s) ∧ e = internalError msg s := by
  unfold tokenize at h
  split at h
  · rename_i e' heq
    simp only [Except.error.injEq] at h
    exact .inl (h ▸ heq)
  · rename_i s heq
    right
    split at h
    · simp only [Except.error.injEq] at h; exact ⟨s, _, heq, h.symm⟩
    split at h
    · simp only [Except.error.injEq] at h; exact ⟨s, _, heq, h.symm⟩
    split at h
    · simp only [Except.error.injEq] at h; exact ⟨s, _, heq, h.symm⟩
    cases h

/-- every token produced by the lexer carries the exact offset, line and column of its lexeme -/
theorem token_positions (src : List Char) (toks : List Tok) (h : tokenize src = .ok toks) :
    ∀ t ∈ toks, Located src t := by
  have hg := tokenize_good src
  obtain ⟨s, heq, _, rfl⟩ := tokenize_ok h
  rw [heq] at hg
  intro t ht
  exact located_of_spans (hg.tokens t (by simpa using ht))

/-- every error raised by the lexer points at a span of the source with exact coordinates
(the in-progress token, the opening `{{`, or the current position) -/
theorem error_position (src : List Char) (e : Err) (h : tokenize src = .error e) : Located src e.tok := by
  have hg := tokenize_good src
  rcases tokenize_err h with heq | ⟨s, msg, heq, rfl⟩
  · rw [heq] at hg
    exact located_of_spans hg
  · rw [heq] at hg
    exact located_of_spans (internalError_spans _ hg)

/-- the tokens tile the source: the first starts at byte 0, each starts where the previous one
ends, and the last ends at the end of the text — no byte is skipped or counted twice -/
theorem tokens_tile (src : List Char) (toks : List Tok) (h : tokenize src = .ok toks) :
    Tiled toks.reverse (utf8Len src) := by
  have hg := tokenize_good src
  obtain ⟨s, heq, hlen, rfl⟩ := tokenize_ok h
  rw [heq] at hg
  have := hg.tiled
  rw [hlen] at this
  simpa using this

/-- Rendering of a located token that lies on one line.  `pre` is everything before the token, `lex`
the token, `tail` the rest of its line, `eol` what follows (nothing, LF…, or CRLF…).  The printed
line number and column are one-based line/byte-column of the token, the echoed text is exactly the
token's source line (tabs expanded, terminator removed), the carets start at the display width of
the text before the token and are as wide as the token is displayed. -/
theorem context_points (w : Char → Nat) (pre lex tail eol : List Char) (t : Tok)
    (hline : t.line = pre.count '\n') (hcol : t.column = utf8Len (lastLine pre))
    (hlen : t.length = utf8Len lex) (hne : lex ≠ [])
    (hnl : '\n' ∉ lex ++ tail)
    (heol : eol = [] ∨ (∃ b, eol = '\n' :: b ∧ (lex ++ tail).getLast? ≠ some '\r') ∨ (∃ b, eol = '\r' :: '\n' :: b)) :
    context w (pre ++ lex ++ tail ++ eol) t = some
      { lineNumber := pre.count '\n' + 1
        columnNumber := utf8Len (lastLine pre) + 1
        echoed := expandTabs (lastLine pre ++ lex ++ tail)
        caretOffset := dispWidth w (lastLine pre)
        caretCount := max (dispWidth w lex) 1 } := by
  have hlexlen : 0 < utf8Len lex := by
    cases lex with
    | nil => exact absurd rfl hne
    | cons c cs => have := Char.utf8Size_pos c; simp; omega
  have hsel : (lines (pre ++ lex ++ tail ++ eol))[t.line]? = some (lastLine pre ++ lex ++ tail) := by
    have := lines_at pre (lex ++ tail ++ eol)
    rw [posOf_line] at this
    rw [hline, List.append_assoc, List.append_assoc, ← List.append_assoc lex, this]
    rcases heol with rfl | ⟨b, rfl, hcr⟩ | ⟨b, rfl⟩
    · rw [List.append_nil, linesGo_noeol _ _ hnl]
      simp [hne, lastLine, List.append_assoc]
    · rw [linesGo_eol _ _ _ hnl]
      simp only [List.head?_cons, Option.some.injEq]
      have hrev : ((lex ++ tail).reverse ++ accAfter pre []) = ((lastLine pre ++ (lex ++ tail))).reverse := by
        simp [lastLine]
      rw [hrev]
      have hne2 : lex ++ tail ≠ [] := fun h => hne (List.append_eq_nil_iff.mp h).1
      have hlast : (lastLine pre ++ (lex ++ tail)).getLast? ≠ some '\r' := by
        rw [List.getLast?_append]
        cases hg : (lex ++ tail).getLast? with
        | none => exact absurd (List.getLast?_eq_none_iff.mp hg) hne2
        | some x => rw [hg] at hcr; simpa using hcr
      generalize hL : lastLine pre ++ (lex ++ tail) = L at hlast
      have : stripCr L.reverse = L := by
        unfold stripCr
        split
        · rename_i r hr
          exfalso
          apply hlast
          have : L = r.reverse ++ ['\r'] := by
            have := congrArg List.reverse hr
            simpa using this
          rw [this]; simp
        · simp
      rw [this, ← hL]; simp [List.append_assoc]
    · have hnl' : '\n' ∉ lex ++ tail ++ ['\r'] := by
        intro h
        rcases List.mem_append.mp h with h | h
        · exact hnl h
        · simp at h
      have : lex ++ tail ++ '\r' :: '\n' :: b = (lex ++ tail ++ ['\r']) ++ '\n' :: b := by simp
      rw [this, linesGo_eol _ _ _ hnl']
      simp [stripCr, lastLine, List.append_assoc]
  unfold context
  rw [hsel]
  have hw : (if t.length = 0 then 1 else t.length) = utf8Len lex := by
    rw [hlen]; split <;> omega
  simp only [hw, hcol]
  have := scan_split w (lastLine pre) lex tail
  rw [this, hline]

/-- A token that continues on following lines (a multi-line string or backtick): the echoed line is
the token's first line and the underline is clipped to it. -/
theorem context_multiline (w : Char → Nat) (pre lex1 lex2 post : List Char) (t : Tok)
    (hline : t.line = pre.count '\n') (hcol : t.column = utf8Len (lastLine pre))
    (hlen : t.length = utf8Len (lex1 ++ '\n' :: lex2)) (hnl : '\n' ∉ lex1)
    (hcr : (lastLine pre ++ lex1).getLast? ≠ some '\r') :
    context w (pre ++ (lex1 ++ '\n' :: lex2) ++ post) t = some
      { lineNumber := pre.count '\n' + 1
        columnNumber := utf8Len (lastLine pre) + 1
        echoed := expandTabs (lastLine pre ++ lex1)
        caretOffset := dispWidth w (lastLine pre)
        caretCount := max (dispWidth w lex1) 1 } := by
  have hsel : (lines (pre ++ (lex1 ++ '\n' :: lex2) ++ post))[t.line]? = some (lastLine pre ++ lex1) := by
    have := lines_at pre (lex1 ++ '\n' :: (lex2 ++ post))
    rw [posOf_line] at this
    have e : pre ++ (lex1 ++ '\n' :: lex2) ++ post = pre ++ (lex1 ++ '\n' :: (lex2 ++ post)) := by simp
    rw [hline, e, this, linesGo_eol _ _ _ hnl]
    simp only [List.head?_cons, Option.some.injEq]
    have hrev : (lex1.reverse ++ accAfter pre []) = (lastLine pre ++ lex1).reverse := by simp [lastLine]
    rw [hrev]
    generalize lastLine pre ++ lex1 = L at hcr
    unfold stripCr
    split
    · rename_i r hr
      exfalso
      apply hcr
      have : L = r.reverse ++ ['\r'] := by
        have := congrArg List.reverse hr
        simpa using this
      rw [this]; simp
    · simp
  unfold context
  rw [hsel]
  have hw : utf8Len lex1 ≤ (if t.length = 0 then 1 else t.length) := by
    rw [hlen]; simp only [utf8Len_append, utf8Len_cons]; split <;> omega
  simp only [hcol]
  rw [scan_clipped w (lastLine pre) lex1 _ hw, hline]

/-- a located token whose line `str::lines` does not yield is at the very end of the text, on the line after the final
line feed -/
theorem no_line_is_end_of_file (src : List Char) (t : Tok) (hloc : Spans src t)
    (hnone : (lines src)[t.line]? = none) : t.offset = utf8Len src := by
  obtain ⟨pre, lex, post, h1, h2, h3, _, _⟩ := hloc
  have := lines_at pre (lex ++ post)
  rw [← h3, ← List.append_assoc, ← h1, hnone] at this
  have hempty : linesGo (lex ++ post) (accAfter pre []) = [] := by
    cases hl : linesGo (lex ++ post) (accAfter pre []) with
    | nil => rfl
    | cons a b => rw [hl] at this; simp at this
  have : lex ++ post = [] := by
    cases hlp : lex ++ post with
    | nil => rfl
    | cons c cs =>
      rw [hlp] at hempty
      simp only [linesGo] at hempty
      split at hempty
      · cases hempty
      · exfalso
        -- a non-empty accumulator never yields the empty list
        have key : ∀ (r acc : List Char), acc ≠ [] → linesGo r acc ≠ [] := by
          intro r
          induction r with
          | nil => intro acc ha; cases acc with
            | nil => exact absurd rfl ha
            | cons x xs => simp [linesGo]
          | cons x xs ih =>
            intro acc ha
            simp only [linesGo]
            split
            · simp
            · exact ih _ (by simp)
        exact key cs (c :: accAfter pre []) (by simp) hempty
  rw [h2, posOf_offset, h1]
  rw [List.append_assoc, this]; simp

/-- **Every located token gets a context**: a location, an echoed line and carets are printed for every token the lexer
produces and every error token - the "invalid line number" internal error is unreachable, and (since the repair of the
end-of-file diagnostic) so is the silent case in which nothing was printed. -/
theorem context_always (w : Char → Nat) (src : List Char) (t : Tok) (hloc : Spans src t) : (context w src t).isSome = true := by
  unfold context
  cases hnone : (lines src)[t.line]? with
  | some l => simp
  | none => simp [no_line_is_end_of_file src t hloc hnone]

/-- at the end of a file that ends with a line feed: the line after the last one, shown empty, one caret -/
theorem context_end_of_file (w : Char → Nat) (src : List Char) (t : Tok) (hloc : Spans src t)
    (hnone : (lines src)[t.line]? = none) :
    context w src t = some { lineNumber := t.line + 1, columnNumber := t.column + 1, echoed := [],
                             caretOffset := 0, caretCount := 1 } := by
  unfold context
  simp [hnone, no_line_is_end_of_file src t hloc hnone, scan, expandTabs]

/-- non-vacuity: a token after a tab, a CJK character and an emoji, in a CRLF file -/
example :
    context (fun c => if c = '中' then 2 else 1) "a\r\n\t中x := y\r\nb".toList ⟨.identifier, 12, 1, 1, 9⟩
      = some { lineNumber := 2, columnNumber := 10, echoed := "    中x := y".toList, caretOffset := 11, caretCount := 1 } := by
  decide

/-! ### the file named is the one that contains the token -/
section FileNames
open Just.Loader

/-- **the name shown identifies the file**: two source files of one run (absolute, cleaned paths) that are shown under
the same name are the same file — whether they lie below the root justfile's directory (shown relative to it) or
outside (shown by their whole path).  A name that dropped a directory (`sub/mod.just` shown as `mod.just`, the seeded
change C12-m10) would name two files alike. -/
theorem shown_name_identifies_file (rootDir p q : List String) (h : display rootDir p = display rootDir q) : p = q := by
  unfold display at h
  cases hp : stripPrefix rootDir p with
  | some rp =>
    cases hq : stripPrefix rootDir q with
    | some rq =>
      rw [hp, hq] at h
      have : rp = rq := by injection h
      rw [stripPrefix_some _ _ _ hp, stripPrefix_some _ _ _ hq, this]
    | none => rw [hp, hq] at h; cases h
  | none =>
    cases hq : stripPrefix rootDir q with
    | some rq => rw [hp, hq] at h; cases h
    | none => rw [hp, hq] at h; injection h

/-- a file below the root justfile's directory is shown by its path from there, every directory included -/
theorem shown_relative (rootDir rest : List String) : display rootDir (rootDir ++ rest) = .relative rest := by
  have : stripPrefix rootDir (rootDir ++ rest) = some rest := by
    induction rootDir with
    | nil => rfl
    | cons d ds ih => simp [stripPrefix, ih]
  simp [display, this]

example : (display ["w", "proj"] ["w", "proj", "sub", "mod.just"]).text = "sub/mod.just" ∧
    (display ["w", "proj"] ["w", "other", "x.just"]).text = "/w/other/x.just" := by decide

end FileNames

end Just.C12
