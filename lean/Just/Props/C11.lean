import Just.Lemmas.LexerTotal
import Just.Lemmas.LexerSafe
import Just.Lemmas.LexerSafe2
import Just.Props.C12
/-
C11  No input makes just panic, abort, hang or report an internal error.

What is proved here concerns the lexer (src/lexer.rs), the component whose `loop`, `assert_eq!`s
and `internal_error` sites the property is anchored in; the Lean port is tied to the code token
for token by the differential check.  Parser, analyzer, evaluator and command line are covered by
enumeration through the in-process harness and the binary (vlib/c11.py), not by theorems.
-/
namespace Just.C11
open Just.Lexer

/-- The lexer's main loop terminates on every text: the model's loop carries fuel `length + 1`, and
it is never exhausted.  (Hence `tokenize` computes the same result for any larger fuel: the fuel is
an artefact of the model, the Rust `loop` it stands for ends after at most `length + 1` rounds.) -/
theorem lexer_terminates (src : List Char) (e : Err) (h : tokenize src = .error e) : e.kind.isFuel = false :=
  tokenize_terminates src e h

/-- Progress: every round of the main loop that does not end the loop consumes at least one
character, for every lexer state (not only reachable ones), in normal, body and interpolation mode. -/
theorem main_loop_progress (s s' : St) (h : stepMain s = .ok (true, s')) : s'.rest.length < s.rest.length :=
  stepMain_eats h

/-- No lexing function ever un-reads text. -/
theorem step_never_grows (s : St) (b : Bool) (s' : St) (h : stepMain s = .ok (b, s')) :
    s'.rest.length ≤ s.rest.length :=
  Shrinks.stepMain.le h

/-- The "internal error: Error has invalid line number" branch of the diagnostic printer is
unreachable for every token or error token the lexer produces: when no source line is found the
token sits at the very end of the text, which is the case the printer handles silently. -/
theorem lexer_error_never_invalid_line (w : Char → Nat) (src : List Char) (e : Err) (h : tokenize src = .error e)
    (hn : Render.context w src e.tok = none) : e.tok.offset = utf8Len src := by
  have hg := C12.tokenize_good src
  rcases C12.tokenize_err h with heq | ⟨s, msg, heq, rfl⟩
  · rw [heq] at hg
    exact C12.context_none w src e.tok hg hn
  · rw [heq] at hg
    exact C12.context_none w src _ (internalError_spans _ hg) hn

/-- **None of the lexer's `assert_eq!`s can fail**, on any text: neither
`assert_eq!(self.current_token_length(), 0)` in `lex_dedent` nor the three at the end of `tokenize`
(`token_start == token_end`, `token_start == src.len()`, `indentation.len() == 1`).  Proved through
three invariants of the main loop: the lexer is idle (no token in progress) at every loop head, the
indentation stack is an empty string under non-empty strings, and the loop ends with no text left.
(Before the `fix:` for a backslash at the end of the file this was false, and the model said so.) -/
theorem lexer_asserts_hold (src : List Char) (e : Err) (h : tokenize src = .error e) : e.kind.isAssert = false :=
  tokenize_asserts_hold src e h

/-- **The lexer is total and never reports an internal error.**  For every text, `tokenize` returns
tokens or an ORDINARY diagnostic: no `internal_error` site is reachable (`Lexer advanced past end of
text`, `Lexer presumed character`, `Lexer::error: expected string or backtick token start`,
`lex_string: invalid string start`, `lex_interpolation … empty interpolation stack`,
`lex_delimiter called with non-delimiter token`), no assertion fails, and the model's fuel is never
exhausted.  Proved by Hoare-style reasoning over the model: every `advance`/`presume` is guarded by
what the dispatch just looked at, the string scanner keeps "the lexeme starts with its delimiter",
the body scanner stops on text that is still there, `advance_n` never exceeds the leading white space. -/
theorem lexer_no_internal_error (src : List Char) (e : Err) (h : tokenize src = .error e) :
    e.kind.isInternal = false ∧ e.kind.isFuel = false :=
  tokenize_no_internal src e h

/-- every round of the main loop starts with no token in progress -/
theorem main_loop_idle (src : List Char) (s : St) (b : Bool) (s' : St) (hi : Inv src s) (hc : s.cur = [])
    (h : stepMain s = .ok (b, s')) : s'.cur = [] :=
  KI.stepMain.keep s b s' hi h hc

end Just.C11
