import Just.Lemmas.LexerTotal
import Just.Lemmas.LexerSafe
import Just.Lemmas.LexerSafe2
import Just.Props.C12
import Just.Lemmas.Unindent
import Just.Model.Body
import Just.Lemmas.Cook
import Just.Lemmas.ParserFuel
/-
C11  No input makes just panic, abort, hang or report an internal error.

What is proved here concerns the lexer (src/lexer.rs), the component whose `loop`, `assert_eq!`s
and `internal_error` sites the property is anchored in; the Lean port is tied to the code token
for token by the differential check - and the token-level model of the parser (`parse_ast` with everything it
calls, Model/Syntax, Header, Items, Ast; tied to parser.rs by the whole-file differential of C10): it cannot hang.
Analyzer, evaluator and command line are covered by enumeration through the in-process harness and the binary
(vlib/c11.py), not by theorems; the parser's recursion-depth guard and stack use are not modelled.
-/
namespace Just.C11
open Just.Lexer

/-- The lexer's main loop terminates on every text: the model's loop carries fuel `length + 1`, and
it is never exhausted.  (Hence `tokenize` computes the same result for any larger fuel: the fuel is
an artefact of the model, the Rust `loop` it stands for ends after at most `length + 1` rounds.) -/
theorem lexer_terminates (src : List Char) (e : Err) (h : tokenize src = .error e) : e.kind.isFuel = false :=
  tokenize_terminates src e h

/-- Progress: every round of the main loop that does not end the loop consumes at least one
character, for every lexer state (not only reachable ones), in normal, body and interpolation mode. -/
theorem main_loop_progress (s s' : St) (h : stepMain s = .ok (true, s')) : s'.rest.length < s.rest.length :=
  stepMain_eats h

/-- No lexing function ever un-reads text. -/
theorem step_never_grows (s : St) (b : Bool) (s' : St) (h : stepMain s = .ok (b, s')) :
    s'.rest.length ≤ s.rest.length :=
  Shrinks.stepMain.le h

/-- The "internal error: Error has invalid line number" branch of the diagnostic printer (`Render.context = none`) is
unreachable for every error token the lexer produces: a location, an echoed line and carets are always printed. -/
theorem lexer_error_never_invalid_line (w : Char → Nat) (src : List Char) (e : Err) (h : tokenize src = .error e) :
    (Render.context w src e.tok).isSome = true := by
  have hg := C12.tokenize_good src
  rcases C12.tokenize_err h with heq | ⟨s, msg, heq, rfl⟩
  · rw [heq] at hg
    exact C12.context_always w src e.tok hg
  · rw [heq] at hg
    exact C12.context_always w src _ (internalError_spans _ hg)

/-- **None of the lexer's `assert_eq!`s can fail**, on any text: neither
`assert_eq!(self.current_token_length(), 0)` in `lex_dedent` nor the three at the end of `tokenize`
(`token_start == token_end`, `token_start == src.len()`, `indentation.len() == 1`).  Proved through
three invariants of the main loop: the lexer is idle (no token in progress) at every loop head, the
indentation stack is an empty string under non-empty strings, and the loop ends with no text left.
(Before the `fix:` for a backslash at the end of the file this was false, and the model said so.) -/
theorem lexer_asserts_hold (src : List Char) (e : Err) (h : tokenize src = .error e) : e.kind.isAssert = false :=
  tokenize_asserts_hold src e h

/-- **The lexer is total and never reports an internal error.**  For every text, `tokenize` returns
tokens or an ORDINARY diagnostic: no `internal_error` site is reachable (`Lexer advanced past end of
text`, `Lexer presumed character`, `Lexer::error: expected string or backtick token start`,
`lex_string: invalid string start`, `lex_interpolation … empty interpolation stack`,
`lex_delimiter called with non-delimiter token`), no assertion fails, and the model's fuel is never
exhausted.  Proved by Hoare-style reasoning over the model: every `advance`/`presume` is guarded by
what the dispatch just looked at, the string scanner keeps "the lexeme starts with its delimiter",
the body scanner stops on text that is still there, `advance_n` never exceeds the leading white space. -/
theorem lexer_no_internal_error (src : List Char) (e : Err) (h : tokenize src = .error e) :
    e.kind.isInternal = false ∧ e.kind.isFuel = false :=
  tokenize_no_internal src e h

/-- every round of the main loop starts with no token in progress -/
theorem main_loop_idle (src : List Char) (s : St) (b : Bool) (s' : St) (hi : Inv src s) (hc : s.cur = [])
    (h : stepMain s = .ok (b, s')) : s'.cur = [] :=
  KI.stepMain.keep s b s' hi h hc

/-! ### byte-offset slicing never leaves the text

Three places of the code slice strings by computed byte offsets (a panic in Rust when out of bounds
or inside a multi-byte character): `Token::lexeme`, `unindent`, and the sigil strip of `run_linewise`. -/

/-- `Token::lexeme` (`&src[offset..offset + length]`): for every token the lexer emits the slice is
exactly a run of whole characters of the source — in bounds and on character boundaries. -/
theorem lexeme_slice_valid (src : List Char) (toks : List Tok) (h : tokenize src = .ok toks) :
    ∀ t ∈ toks, ∃ pre lex post, src = pre ++ lex ++ post ∧ t.offset = utf8Len pre ∧ t.length = utf8Len lex := by
  intro t ht
  obtain ⟨pre, lex, post, h1, h2, h3, _, _⟩ := C12.token_positions src toks h t ht
  exact ⟨pre, lex, post, h1, h2, h3⟩

/-- `unindent` (`&line[common_indentation.len()..]`): the common indentation is a prefix of every line
that is sliced (every non-blank line), so the slice starts inside the line, after whole characters. -/
theorem unindent_slice_valid (text : List Char) :
    ∀ line ∈ Unindent.splitLines text [], Unindent.blank line = false →
      Unindent.commonIndentation (Unindent.splitLines text []) <+: line := by
  intro line hl hnb
  obtain ⟨r, hr, hp⟩ := (Unindent.foldCommon_spec none (Unindent.splitLines text [])).2 line hl hnb
  unfold Unindent.commonIndentation
  rw [hr]
  exact hp.trans (Unindent.indentation_prefix line)

/-- the characters `unindent` cuts off are spaces and tabs only (one byte each) -/
theorem unindent_cuts_blanks_only (text : List Char) :
    ∀ c ∈ Unindent.commonIndentation (Unindent.splitLines text []), c = ' ' ∨ c = '\t' := by
  intro c hc
  cases hf : Unindent.foldCommon none (Unindent.splitLines text []) with
  | none => simp [Unindent.commonIndentation, hf] at hc
  | some r =>
    -- `r` is below the indentation of the line that first set the accumulator: find one
    have : ∃ l, r <+: Unindent.indentation l := by
      -- if the fold returned `some`, some non-blank line exists (the accumulator starts as `none`)
      have key : ∀ (ls : List (List Char)) (r : List Char), Unindent.foldCommon none ls = some r →
          ∃ l ∈ ls, Unindent.blank l = false := by
        intro ls
        induction ls with
        | nil => intro r h; simp [Unindent.foldCommon] at h
        | cons x xs ih =>
          intro r h
          by_cases hb : Unindent.blank x = true
          · simp only [Unindent.foldCommon, hb, if_true] at h
            obtain ⟨l, hl, hnb⟩ := ih r h
            exact ⟨l, by simp [hl], hnb⟩
          · exact ⟨x, by simp, by simpa using hb⟩
      obtain ⟨l, hl, hnb⟩ := key _ r hf
      obtain ⟨r', hr', hp⟩ := (Unindent.foldCommon_spec none (Unindent.splitLines text [])).2 l hl hnb
      rw [hf] at hr'
      cases hr'
      exact ⟨l, hp⟩
    obtain ⟨l, hp⟩ := this
    simp only [Unindent.commonIndentation, hf, Option.getD_some] at hc
    have hmem : c ∈ Unindent.indentation l := hp.subset hc
    have := Unindent.mem_takeWhile_pred _ _ _ hmem
    simpa [Unindent.isIndentChar] using this

/-- `run_linewise` (`&command[sigils..]`): the characters stripped are exactly the `@` / `-` the line
starts with — one byte each, present in the evaluated text — for every first line of a group. -/
theorem sigil_slice_valid (l : Body.Line) :
    (l.isQuiet = true ∧ l.isInfallible = false → ∃ r, Body.evalLine l false = '@' :: r)
    ∧ (l.isQuiet = false ∧ l.isInfallible = true → ∃ r, Body.evalLine l false = '-' :: r)
    ∧ (l.isQuiet = true ∧ l.isInfallible = true → ∃ a b r, Body.evalLine l false = a :: b :: r
        ∧ (a = '@' ∨ a = '-') ∧ (b = '@' ∨ b = '-')) := by
  unfold Body.Line.isQuiet Body.Line.isInfallible Body.Line.first Body.evalLine
  cases hf : l.frags with
  | nil => simp
  | cons f fs =>
    cases f with
    | interp v => simp
    | text t =>
      simp only [Bool.false_eq_true, if_false]
      cases t with
      | nil => simp [Body.startsWith]
      | cons a t' =>
        cases t' with
        | nil =>
          simp only [Body.startsWith, List.isPrefixOf, Body.unescape]
          by_cases ha : a = '@'
          · subst ha; simp
          · by_cases hb : a = '-'
            · subst hb; simp
            · have ha' : ¬ '@' = a := fun h => ha h.symm
              have hb' : ¬ '-' = a := fun h => hb h.symm
              simp [ha', hb']
        | cons b t'' =>
          have hun : ∀ r, (a = '@' ∨ a = '-') → ∃ r', Body.unescape (a :: r) = a :: r' := by
            intro r ha
            rcases ha with rfl | rfl <;> exact ⟨_, by rw [Body.unescape]; intro r e; cases e⟩
          have hun2 : (a = '@' ∨ a = '-') → (b = '@' ∨ b = '-') → ∃ r', Body.unescape (a :: b :: t'') = a :: b :: r' := by
            intro ha hb
            obtain ⟨r1, h1⟩ : ∃ r1, Body.unescape (b :: t'') = b :: r1 := by
              rcases hb with rfl | rfl <;> exact ⟨_, by rw [Body.unescape]; intro r e; cases e⟩
            rcases ha with rfl | rfl
            · exact ⟨r1, by rw [Body.unescape, h1]; intro r e; cases e⟩
            · exact ⟨r1, by rw [Body.unescape, h1]; intro r e; cases e⟩
          simp only [Body.startsWith, List.isPrefixOf, Bool.and_true, beq_iff_eq, Bool.or_eq_true, Bool.and_eq_true]
          refine ⟨?_, ?_, ?_⟩
          · intro ⟨hq, hi⟩
            have ha : a = '@' := by
              rcases hq with h | h
              · exact h.symm
              · exfalso; simp_all
            obtain ⟨r', hr'⟩ := hun (b :: t'') (Or.inl ha)
            exact ⟨r' ++ Body.evalRest fs, by rw [hr', ha]; rfl⟩
          · intro ⟨hq, hi⟩
            have ha : a = '-' := by
              rcases hi with h | h
              · exact h.symm
              · exfalso; simp_all
            obtain ⟨r', hr'⟩ := hun (b :: t'') (Or.inr ha)
            exact ⟨r' ++ Body.evalRest fs, by rw [hr', ha]; rfl⟩
          · intro ⟨hq, hi⟩
            have hab : (a = '@' ∧ b = '-') ∨ (a = '-' ∧ b = '@') := by
              rcases hq with h | h <;> rcases hi with h' | h'
              · exfalso; rw [← h] at h'; cases h'
              · exact Or.inl ⟨h'.1.symm, h'.2.symm⟩
              · exact Or.inr ⟨h.1.symm, h.2.symm⟩
              · exfalso; rw [← h.1] at h'; cases h'.1
            rcases hab with ⟨ha, hb⟩ | ⟨ha, hb⟩
            · obtain ⟨r', hr'⟩ := hun2 (Or.inl ha) (Or.inr hb)
              exact ⟨a, b, r' ++ Body.evalRest fs, by rw [hr']; rfl, Or.inl ha, Or.inr hb⟩
            · obtain ⟨r', hr'⟩ := hun2 (Or.inr ha) (Or.inl hb)
              exact ⟨a, b, r' ++ Body.evalRest fs, by rw [hr']; rfl, Or.inr ha, Or.inl hb⟩

/-- `cook_string` (`u32::from_str_radix(hex, 16).unwrap()` in a `\\u{…}` escape): the unwrap cannot fail,
whatever the string - the scan only ever collects hexadecimal digits, and rejects an empty escape first. -/
theorem cook_unwrap_safe (text : List Char) : Cook.cook text ≠ .error .unwrapFailed :=
  Cook.cookLoop_no_unwrap .initial text [] trivial

/-- the same for a whole literal (indented strings are unindented first) -/
theorem cook_literal_unwrap_safe (indented escapes : Bool) (raw : List Char) :
    Cook.cookLiteral indented escapes raw ≠ .error .unwrapFailed := by
  unfold Cook.cookLiteral
  simp only
  split
  · exact cook_unwrap_safe _
  · intro h; cases h

/-! ### the parser cannot hang -/

/-- **Every turn of the `loop` of `parse_ast` that goes on has consumed at least one token** - whatever the tokens,
the items read so far and the state of `eol_since_last_comment`.  (35 progress lemmas, one per parsing function of the
model: each returns strictly fewer tokens than it was given, the optional and repeated parts not more.) -/
theorem parser_loop_progress (litLe : String → String → Bool) (fuel : Nat) (acc acc' : List Ast.Item) (eol eol' : Bool)
    (ts rest : List Syntax.Tk) (h : Ast.step litLe fuel acc eol ts = some (.more acc' eol' rest)) : rest.length < ts.length :=
  Ast.step_progress litLe fuel acc eol ts _ h

/-- … hence the loop takes at most as many turns as there are tokens: more loop fuel changes nothing. -/
theorem parser_loop_bounded (litLe : String → String → Bool) (fuel f k : Nat) (acc : List Ast.Item) (eol : Bool) (ts : List Syntax.Tk)
    (h : ts.length < f) : Ast.parseItems litLe fuel (f + k) acc eol ts = Ast.parseItems litLe fuel f acc eol ts :=
  Ast.parseItems_fuel litLe fuel f acc eol ts k h

/-- **The parser needs no fuel.**  The model's parsing functions recurse on a fuel argument; with `8 * tokens + 12`
`parse_ast` returns exactly what it returns with any larger amount, for every token list.  So the fuel is an artefact of
the model, every recursion and loop of the parser it stands for ends by itself after a number of calls linear in the
number of tokens, and a `none` is a syntax error, never exhaustion.  (Lemmas/ParserFuel.lean: the same statement for each
of the 35 functions, by induction on the fuel with the progress lemmas.) -/
theorem parser_needs_no_fuel (litLe : String → String → Bool) (ts : List Syntax.Tk) (fuel : Nat) (h : 8 * ts.length + 12 ≤ fuel) :
    Ast.parseAst litLe fuel ts = Ast.parseAst litLe (8 * ts.length + 12) ts := by
  obtain ⟨k, rfl⟩ : ∃ k, fuel = (8 * ts.length + 12) + k := ⟨fuel - (8 * ts.length + 12), by omega⟩
  exact Ast.parseAst_stable litLe _ k ts (Nat.le_refl _)

/-- the same for an expression on its own -/
theorem expression_parser_needs_no_fuel (ts : List Syntax.Tk) (fuel : Nat) (h : 8 * ts.length + 4 ≤ fuel) :
    Syntax.parseExpression fuel ts = Syntax.parseExpression (8 * ts.length + 4) ts := by
  obtain ⟨k, rfl⟩ : ∃ k, fuel = (8 * ts.length + 4) + k := ⟨fuel - (8 * ts.length + 4), by omega⟩
  exact (Syntax.parserStable _).expression ts k (Nat.le_refl _)

end Just.C11
