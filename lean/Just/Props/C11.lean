import Just.Lemmas.LexerTotal
import Just.Props.C12
/-
C11  No input makes just panic, abort, hang or report an internal error.

What is proved here concerns the lexer (src/lexer.rs), the component whose `loop`, `assert_eq!`s
and `internal_error` sites the property is anchored in; the Lean port is tied to the code token
for token by the differential check.  Parser, analyzer, evaluator and command line are covered by
enumeration through the in-process harness and the binary (vlib/c11.py), not by theorems.
-/
namespace Just.C11
open Just.Lexer

/-- The lexer's main loop terminates on every text: the model's loop carries fuel `length + 1`, and
it is never exhausted.  (Hence `tokenize` computes the same result for any larger fuel: the fuel is
an artefact of the model, the Rust `loop` it stands for ends after at most `length + 1` rounds.) -/
theorem lexer_terminates (src : List Char) (e : Err) (h : tokenize src = .error e) : e.kind.isFuel = false :=
  tokenize_terminates src e h

/-- Progress: every round of the main loop that does not end the loop consumes at least one
character, for every lexer state (not only reachable ones), in normal, body and interpolation mode. -/
theorem main_loop_progress (s s' : St) (h : stepMain s = .ok (true, s')) : s'.rest.length < s.rest.length :=
  stepMain_eats h

/-- No lexing function ever un-reads text. -/
theorem step_never_grows (s : St) (b : Bool) (s' : St) (h : stepMain s = .ok (b, s')) :
    s'.rest.length ≤ s.rest.length :=
  Shrinks.stepMain.le h

/-- The "internal error: Error has invalid line number" branch of the diagnostic printer is
unreachable for every token or error token the lexer produces: when no source line is found the
token sits at the very end of the text, which is the case the printer handles silently. -/
theorem lexer_error_never_invalid_line (w : Char → Nat) (src : List Char) (e : Err) (h : tokenize src = .error e)
    (hn : Render.context w src e.tok = none) : e.tok.offset = utf8Len src := by
  have hg := C12.tokenize_good src
  rcases C12.tokenize_err h with heq | ⟨s, msg, heq, rfl⟩
  · rw [heq] at hg
    exact C12.context_none w src e.tok hg hn
  · rw [heq] at hg
    exact C12.context_none w src _ (internalError_spans _ hg) hn

end Just.C11
