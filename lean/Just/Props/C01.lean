/-
C01 — dependencies run first; each recipe invocation runs once, in order.

All theorems are about `Just.Run.runRecipe` / `runDeps` / `runInvs` (model of
`Justfile::run_recipe` and the `Ran` memo), for every program, configuration, child-process
behaviour, memo state and fuel.  They are proved by induction on the big-step specification
`Runs`, which the executable model refines (`runRecipe_sound`).
-/
import Just.Lemmas.RunSpec
import Just.Lemmas.RunLeaf
namespace Just.Props.C01
open Just.Run

/-- (recipe, arguments) of the body labels that are not below a subsequent dependency. -/
def topKeys : List Ev → List Key
  | [] => []
  | .body ri a false :: es => (ri, a) :: topKeys es
  | _ :: es => topKeys es

/-- recipes whose body started -/
def bodyRecipes : List Ev → List Nat
  | [] => []
  | .body ri _ _ :: es => ri :: bodyRecipes es
  | _ :: es => bodyRecipes es

@[simp] theorem topKeys_append (a b : List Ev) : topKeys (a ++ b) = topKeys a ++ topKeys b := by
  induction a with
  | nil => rfl
  | cons e es ih =>
    cases e with
    | body ri x s => cases s <;> simp [topKeys, ih]
    | _ => simp [topKeys, ih]

@[simp] theorem bodyRecipes_append (a b : List Ev) :
    bodyRecipes (a ++ b) = bodyRecipes a ++ bodyRecipes b := by
  induction a with
  | nil => rfl
  | cons e es ih => cases e <;> simp [bodyRecipes, ih]

theorem topKeys_leaf {es : List Ev} (h : Leaf es) : topKeys es = [] := by
  induction es with
  | nil => rfl
  | cons e es ih =>
    have he := h e (List.mem_cons_self ..)
    have := ih (fun x hx => h x (List.mem_cons_of_mem _ hx))
    cases e <;> simp_all [topKeys, Ev.isLeaf]

theorem bodyRecipes_leaf {es : List Ev} (h : Leaf es) : bodyRecipes es = [] := by
  induction es with
  | nil => rfl
  | cons e es ih =>
    have he := h e (List.mem_cons_self ..)
    have := ih (fun x hx => h x (List.mem_cons_of_mem _ hx))
    cases e <;> simp_all [bodyRecipes, Ev.isLeaf]

@[simp] theorem topKeys_prompt (cfg : Cfg) (r : Recipe) (ri : Nat) : topKeys (promptOf cfg r ri) = [] := by
  unfold promptOf; split <;> rfl

@[simp] theorem bodyRecipes_prompt (cfg : Cfg) (r : Recipe) (ri : Nat) :
    bodyRecipes (promptOf cfg r ri) = [] := by
  unfold promptOf; split <;> rfl

theorem topKeys_sub_bodyRecipes {es : List Ev} {key : Key} (h : key ∈ topKeys es) :
    key.1 ∈ bodyRecipes es := by
  induction es with
  | nil => cases h
  | cons e es ih =>
    cases e with
    | body ri x s =>
      cases s
      · simp only [topKeys, List.mem_cons] at h
        rcases h with h | h
        · subst h; simp [bodyRecipes]
        · simp [bodyRecipes, ih h]
      · simp only [topKeys] at h
        simp [bodyRecipes, ih h]
    | _ => simp only [topKeys] at h; simpa [bodyRecipes] using ih h

/-- The resolver accepts only acyclic dependency graphs: some rank strictly decreases along every
prior and subsequent edge (C03's `resolve_acyclic` provides it for accepted programs). -/
def Acyclic (P : Prog) (rank : Nat → Nat) : Prop :=
  ∀ ri r, P.recipes[ri]? = some r → ∀ d, d ∈ r.priors ∨ d ∈ r.subs → rank d.target < rank ri

/-! ### rank bound on everything that runs -/

def RankB (rank : Nat → Nat) : Call → List Ev → Prop
  | .recipe _ _ ri _ _ _, es => ∀ rj ∈ bodyRecipes es, rank rj ≤ rank ri
  | .deps _ _ ds _ _ _, es => ∀ rj ∈ bodyRecipes es, ∃ d ∈ ds, rank rj ≤ rank d.target

theorem rank_bound {P : Prog} {cfg : Cfg} {env : Env} {rank : Nat → Nat} (hac : Acyclic P rank)
    {c : Call} {es : List Ev} {res : Except Err Ran} (h : Runs P cfg env c es res) :
    RankB rank c es := by
  induction h with
  | memo _ => intro rj h; cases h
  | outOfFuel => intro rj h; cases h
  | noRecipe _ _ => intro rj h; cases h
  | notConfirmed _ _ _ _ => intro rj h; simp [bodyRecipes] at h
  | bindFail _ _ _ hb =>
    intro rj h
    have := bodyRecipes_leaf (bindParams_leaf' hb)
    simp_all
  | @priorsFail fuel sub ri given ran k r e1 ps e2 e _ hr _ hb _ ih =>
    intro rj h
    have h1 : bodyRecipes e1 = [] :=
      bodyRecipes_leaf (bindParams_leaf' hb)
    simp only [bodyRecipes_append, bodyRecipes_prompt, h1, List.nil_append, List.append_nil] at h
    obtain ⟨d, hd, hle⟩ := ih rj h
    have := hac ri r hr d (Or.inl hd)
    omega
  | @bodyFail fuel sub ri given ran k r e1 ps e2 ran1 e3 e _ hr _ hb _ hbody ih =>
    intro rj h
    have h1 : bodyRecipes e1 = [] :=
      bodyRecipes_leaf (bindParams_leaf' hb)
    have h3 : bodyRecipes e3 = [] :=
      bodyRecipes_leaf (runBody_leaf' hbody)
    simp only [bodyRecipes_append, bodyRecipes_prompt, h1, h3, List.nil_append, List.append_nil,
      bodyRecipes, List.mem_append, List.mem_singleton] at h
    rcases h with h | h
    · obtain ⟨d, hd, hle⟩ := ih rj h
      have := hac ri r hr d (Or.inl hd)
      omega
    · subst h; exact Nat.le_refl _
  | @subsFail fuel sub ri given ran k r e1 ps e2 ran1 e3 e4 e _ hr _ hb _ hbody _ ih2 ih4 =>
    intro rj h
    have h1 : bodyRecipes e1 = [] :=
      bodyRecipes_leaf (bindParams_leaf' hb)
    have h3 : bodyRecipes e3 = [] :=
      bodyRecipes_leaf (runBody_leaf' hbody)
    simp only [bodyRecipes_append, bodyRecipes_prompt, h1, h3, List.nil_append, List.append_nil,
      bodyRecipes, List.mem_append, List.mem_singleton] at h
    rcases h with (h | h) | h
    · obtain ⟨d, hd, hle⟩ := ih2 rj h
      have := hac ri r hr d (Or.inl hd)
      omega
    · subst h; exact Nat.le_refl _
    · obtain ⟨d, hd, hle⟩ := ih4 rj h
      have := hac ri r hr d (Or.inr hd)
      omega
  | @done fuel sub ri given ran k r e1 ps e2 ran1 e3 e4 ranS _ hr _ hb _ hbody _ ih2 ih4 =>
    intro rj h
    have h1 : bodyRecipes e1 = [] :=
      bodyRecipes_leaf (bindParams_leaf' hb)
    have h3 : bodyRecipes e3 = [] :=
      bodyRecipes_leaf (runBody_leaf' hbody)
    simp only [bodyRecipes_append, bodyRecipes_prompt, h1, h3, List.nil_append, List.append_nil,
      bodyRecipes, List.mem_append, List.mem_singleton] at h
    rcases h with (h | h) | h
    · obtain ⟨d, hd, hle⟩ := ih2 rj h
      have := hac ri r hr d (Or.inl hd)
      omega
    · subst h; exact Nat.le_refl _
    · obtain ⟨d, hd, hle⟩ := ih4 rj h
      have := hac ri r hr d (Or.inr hd)
      omega
  | depsNil => intro rj h; cases h
  | depsSkip _ => intro rj h; cases h
  | @depsEvalFail fuel sub d ds ps ran k e1 e _ he =>
    intro rj h
    have := bodyRecipes_leaf (evalList_leaf' he)
    simp_all
  | @depsRecFail fuel sub d ds ps ran k e1 given e2 e _ he _ ih =>
    intro rj h
    have h1 : bodyRecipes e1 = [] :=
      bodyRecipes_leaf (evalList_leaf' he)
    simp only [bodyRecipes_append, h1, List.nil_append] at h
    exact ⟨d, List.mem_cons_self .., ih rj h⟩
  | @depsCons fuel sub d ds ps ran k e1 given e2 ran1 e3 res _ he _ _ ih2 ih3 =>
    intro rj h
    have h1 : bodyRecipes e1 = [] :=
      bodyRecipes_leaf (evalList_leaf' he)
    simp only [bodyRecipes_append, h1, List.nil_append, List.mem_append] at h
    rcases h with h | h
    · exact ⟨d, List.mem_cons_self .., ih2 rj h⟩
    · obtain ⟨d', hd', hle⟩ := ih3 rj h
      exact ⟨d', List.mem_cons_of_mem _ hd', hle⟩

/-! ### run once -/

/-- The memo grows by exactly the top-level bodies, which are pairwise different and new. -/
def TopGood (ran : Ran) (es : List Ev) (res : Except Err Ran) : Prop :=
  (topKeys es).Nodup ∧ (∀ key ∈ topKeys es, key ∉ ran) ∧
    (∀ ran', res = .ok ran' → ∀ key, key ∈ ran' ↔ key ∈ ran ∨ key ∈ topKeys es)

def Once : Call → List Ev → Except Err Ran → Prop
  | .recipe _ false _ _ ran _, es, res => TopGood ran es res
  | .deps _ false _ _ ran _, es, res => TopGood ran es res
  | .recipe _ true _ _ _ _, es, _ => topKeys es = []
  | .deps _ true _ _ _ _, es, _ => topKeys es = []

theorem TopGood.nil_ok (ran : Ran) : TopGood ran [] (.ok ran) := by
  refine ⟨List.nodup_nil, ?_, ?_⟩
  · intro key h; cases h
  · intro ran' h key; cases h; simp [topKeys]

theorem TopGood.nil_err (ran : Ran) (e : Err) : TopGood ran [] (.error e) := by
  refine ⟨List.nodup_nil, ?_, ?_⟩
  · intro key h; cases h
  · intro ran' h; cases h

theorem TopGood.of_topKeys_nil {ran : Ran} {es : List Ev} {e : Err} (h : topKeys es = []) :
    TopGood ran es (.error e) := by
  refine ⟨by rw [h]; exact List.nodup_nil, ?_, ?_⟩
  · intro key hk; rw [h] at hk; cases hk
  · intro ran' h; cases h

theorem once_all {P : Prog} {cfg : Cfg} {env : Env} {rank : Nat → Nat} (hac : Acyclic P rank)
    {c : Call} {es : List Ev} {res : Except Err Ran} (h : Runs P cfg env c es res) :
    Once c es res := by
  induction h with
  | @memo fuel sub ri given ran k _ => cases sub <;> simp [Once, TopGood.nil_ok, topKeys]
  | @outOfFuel sub ri given ran k => cases sub <;> simp [Once, TopGood.nil_err, topKeys]
  | @noRecipe fuel sub ri given ran k _ _ => cases sub <;> simp [Once, TopGood.nil_err, topKeys]
  | @notConfirmed fuel sub ri given ran k r _ _ _ _ =>
    cases sub
    · exact TopGood.of_topKeys_nil rfl
    · rfl
  | @bindFail fuel sub ri given ran k r e1 e _ _ _ hb =>
    have h1 : topKeys e1 = [] :=
      topKeys_leaf (bindParams_leaf' hb)
    cases sub
    · exact TopGood.of_topKeys_nil (by simp [h1])
    · simp [Once, h1]
  | @priorsFail fuel sub ri given ran k r e1 ps e2 e _ _ _ hb _ ih =>
    have h1 : topKeys e1 = [] :=
      topKeys_leaf (bindParams_leaf' hb)
    cases sub
    · obtain ⟨hn, hd, _⟩ := ih
      refine ⟨by simpa [h1] using hn, by simpa [h1] using hd, ?_⟩
      intro ran' h; cases h
    · simp only [Once] at ih ⊢; simp [h1, ih]
  | @bodyFail fuel sub ri given ran k r e1 ps e2 ran1 e3 e hm hr _ hb hpri hbody ih =>
    have h1 : topKeys e1 = [] :=
      topKeys_leaf (bindParams_leaf' hb)
    have h3 : topKeys e3 = [] :=
      topKeys_leaf (runBody_leaf' hbody)
    cases sub
    · obtain ⟨hn, hd, hmem⟩ := ih
      have hrk := rank_bound hac hpri
      have hnot : (ri, given) ∉ topKeys e2 := by
        intro hin
        obtain ⟨d, hd', hle⟩ := hrk ri (topKeys_sub_bodyRecipes hin)
        have := hac ri r hr d (Or.inl hd')
        omega
      refine ⟨?_, ?_, ?_⟩
      · simp only [topKeys_append, topKeys_prompt, h1, h3, topKeys, List.nil_append, List.append_nil]
        exact List.nodup_append.mpr ⟨hn, (by simp), by
          intro a ha b hb; simp at hb; subst hb; intro hab; subst hab; exact hnot ha⟩
      · intro key hk
        simp only [topKeys_append, topKeys_prompt, h1, h3, topKeys, List.nil_append, List.append_nil,
          List.mem_append, List.mem_singleton] at hk
        rcases hk with hk | hk
        · exact hd key hk
        · subst hk; exact hm
      · intro ran' h; cases h
    · simp only [Once] at ih ⊢; simp [h1, h3, ih, topKeys]
  | @subsFail fuel sub ri given ran k r e1 ps e2 ran1 e3 e4 e hm hr _ hb hpri hbody _ ih2 ih4 =>
    have h1 : topKeys e1 = [] :=
      topKeys_leaf (bindParams_leaf' hb)
    have h3 : topKeys e3 = [] :=
      topKeys_leaf (runBody_leaf' hbody)
    simp only [Once] at ih4
    cases sub
    · obtain ⟨hn, hd, hmem⟩ := ih2
      have hrk := rank_bound hac hpri
      have hnot : (ri, given) ∉ topKeys e2 := by
        intro hin
        obtain ⟨d, hd', hle⟩ := hrk ri (topKeys_sub_bodyRecipes hin)
        have := hac ri r hr d (Or.inl hd')
        omega
      refine ⟨?_, ?_, ?_⟩
      · simp only [topKeys_append, topKeys_prompt, h1, h3, ih4, topKeys, List.nil_append, List.append_nil]
        exact List.nodup_append.mpr ⟨hn, (by simp), by
          intro a ha b hb; simp at hb; subst hb; intro hab; subst hab; exact hnot ha⟩
      · intro key hk
        simp only [topKeys_append, topKeys_prompt, h1, h3, ih4, topKeys, List.nil_append, List.append_nil,
          List.mem_append, List.mem_singleton] at hk
        rcases hk with hk | hk
        · exact hd key hk
        · subst hk; exact hm
      · intro ran' h; cases h
    · simp only [Once] at ih2 ⊢; simp [h1, h3, ih2, ih4, topKeys]
  | @done fuel sub ri given ran k r e1 ps e2 ran1 e3 e4 ranS hm hr _ hb hpri hbody _ ih2 ih4 =>
    have h1 : topKeys e1 = [] :=
      topKeys_leaf (bindParams_leaf' hb)
    have h3 : topKeys e3 = [] :=
      topKeys_leaf (runBody_leaf' hbody)
    simp only [Once] at ih4
    cases sub
    · obtain ⟨hn, hd, hmem⟩ := ih2
      have hrk := rank_bound hac hpri
      have hnot : (ri, given) ∉ topKeys e2 := by
        intro hin
        obtain ⟨d, hd', hle⟩ := hrk ri (topKeys_sub_bodyRecipes hin)
        have := hac ri r hr d (Or.inl hd')
        omega
      refine ⟨?_, ?_, ?_⟩
      · simp only [topKeys_append, topKeys_prompt, h1, h3, ih4, topKeys, List.nil_append, List.append_nil]
        exact List.nodup_append.mpr ⟨hn, (by simp), by
          intro a ha b hb; simp at hb; subst hb; intro hab; subst hab; exact hnot ha⟩
      · intro key hk
        simp only [topKeys_append, topKeys_prompt, h1, h3, ih4, topKeys, List.nil_append, List.append_nil,
          List.mem_append, List.mem_singleton] at hk
        rcases hk with hk | hk
        · exact hd key hk
        · subst hk; exact hm
      · intro ran' h key
        cases h
        simp only [topKeys_append, topKeys_prompt, h1, h3, ih4, topKeys, List.nil_append, List.append_nil,
          List.mem_append, List.mem_cons, List.not_mem_nil, or_false]
        have := hmem ran1 rfl key
        constructor
        · rintro (h | h)
          · exact Or.inr (Or.inr h)
          · rcases this.mp h with h | h
            · exact Or.inl h
            · exact Or.inr (Or.inl h)
        · rintro (h | h | h)
          · exact Or.inr (this.mpr (Or.inl h))
          · exact Or.inr (this.mpr (Or.inr h))
          · exact Or.inl h
    · simp only [Once] at ih2 ⊢; simp [h1, h3, ih2, ih4, topKeys]
  | @depsNil fuel sub ps ran k => cases sub <;> simp [Once, TopGood.nil_ok, topKeys]
  | @depsSkip fuel sub d ds ps ran k _ => cases sub <;> simp [Once, TopGood.nil_ok, topKeys]
  | @depsEvalFail fuel sub d ds ps ran k e1 e _ he =>
    have h1 : topKeys e1 = [] :=
      topKeys_leaf (evalList_leaf' he)
    cases sub
    · exact TopGood.of_topKeys_nil h1
    · exact h1
  | @depsRecFail fuel sub d ds ps ran k e1 given e2 e _ he _ ih =>
    have h1 : topKeys e1 = [] :=
      topKeys_leaf (evalList_leaf' he)
    cases sub
    · obtain ⟨hn, hd, _⟩ := ih
      refine ⟨by simpa [h1] using hn, by simpa [h1] using hd, ?_⟩
      intro ran' h; cases h
    · simp only [Once] at ih ⊢; simp [h1, ih]
  | @depsCons fuel sub d ds ps ran k e1 given e2 ran1 e3 res _ he _ _ ih2 ih3 =>
    have h1 : topKeys e1 = [] :=
      topKeys_leaf (evalList_leaf' he)
    cases sub
    · obtain ⟨hn2, hd2, hm2⟩ := ih2
      obtain ⟨hn3, hd3, hm3⟩ := ih3
      have hm2' := hm2 ran1 rfl
      refine ⟨?_, ?_, ?_⟩
      · simp only [topKeys_append, h1, List.nil_append]
        exact List.nodup_append.mpr ⟨hn2, hn3, by
          intro a ha b hb hab; subst hab
          exact hd3 a hb ((hm2' a).mpr (Or.inr ha))⟩
      · intro key hk
        simp only [topKeys_append, h1, List.nil_append, List.mem_append] at hk
        rcases hk with hk | hk
        · exact hd2 key hk
        · intro hr; exact hd3 key hk ((hm2' key).mpr (Or.inl hr))
      · intro ran' h key
        have := hm3 ran' h key
        simp only [topKeys_append, h1, List.nil_append, List.mem_append]
        rw [this, hm2' key]
        constructor
        · rintro ((h | h) | h)
          · exact Or.inl h
          · exact Or.inr (Or.inl h)
          · exact Or.inr (Or.inr h)
        · rintro (h | h | h)
          · exact Or.inl (Or.inl h)
          · exact Or.inl (Or.inr h)
          · exact Or.inr h
    · simp only [Once] at ih2 ih3 ⊢; simp [h1, ih2, ih3]

/-- **run once**: for every accepted (acyclic) program, every command line run through
`runInvs`-style calls, every fault behaviour: among command-line and prior-dependency
invocations each (recipe, arguments) pair starts its body at most once, none that the memo already
holds runs again, and on success the memo has grown by exactly those pairs. -/
theorem run_once (P : Prog) (cfg : Cfg) (env : Env) (rank : Nat → Nat) (hac : Acyclic P rank)
    (fuel ri : Nat) (given : Args) (ran : Ran) (k : Nat) :
    TopGood ran (runRecipe P cfg env fuel false ri given ran k).1
      (runRecipe P cfg env fuel false ri given ran k).2 :=
  once_all hac (runRecipe_sound P cfg env fuel false ri given ran k _ _ rfl)

/-- the same for a whole command line -/
theorem run_once_cmdline (P : Prog) (cfg : Cfg) (env : Env) (rank : Nat → Nat) (hac : Acyclic P rank)
    (fuel : Nat) : ∀ (invs : List Key) (ran : Ran) (k : Nat),
    TopGood ran (runInvs P cfg env fuel invs ran k).1 (runInvs P cfg env fuel invs ran k).2 := by
  intro invs
  induction invs with
  | nil => intro ran k; simp only [runInvs]; exact TopGood.nil_ok ran
  | cons inv invs ih =>
    intro ran k
    obtain ⟨ri, given⟩ := inv
    have h1 := run_once P cfg env rank hac fuel ri given ran k
    simp only [runInvs]
    split
    · rename_i e1 e heq
      rw [heq] at h1
      exact h1
    · rename_i e1 ran1 heq
      rw [heq] at h1
      have h2 := ih ran1 (k + countPrompts e1)
      obtain ⟨hn2, hd2, hm2⟩ := h1
      obtain ⟨hn3, hd3, hm3⟩ := h2
      have hm2' := hm2 ran1 rfl
      refine ⟨?_, ?_, ?_⟩
      · simp only [topKeys_append]
        exact List.nodup_append.mpr ⟨hn2, hn3, by
          intro a ha b hb hab; subst hab
          exact hd3 a hb ((hm2' a).mpr (Or.inr ha))⟩
      · intro key hk
        simp only [topKeys_append, List.mem_append] at hk
        rcases hk with hk | hk
        · exact hd2 key hk
        · intro hr; exact hd3 key hk ((hm2' key).mpr (Or.inl hr))
      · intro ran' h key
        have := hm3 ran' h key
        simp only [topKeys_append, List.mem_append]
        rw [this, hm2' key]
        constructor
        · rintro ((h | h) | h)
          · exact Or.inl h
          · exact Or.inr (Or.inl h)
          · exact Or.inr (Or.inr h)
        · rintro (h | h | h)
          · exact Or.inl (Or.inl h)
          · exact Or.inl (Or.inr h)
          · exact Or.inr h

/-- **a different argument list runs again** (and a requested invocation does run): after a
successful invocation of `ri` with `given`, either the memo already held it or its body started
in this very run — whatever other argument lists of `ri` the memo holds. -/
theorem requested_runs (P : Prog) (cfg : Cfg) (env : Env) (rank : Nat → Nat) (hac : Acyclic P rank)
    (fuel ri : Nat) (given : Args) (ran ran' : Ran) (k : Nat) (es : List Ev)
    (h : runRecipe P cfg env fuel false ri given ran k = (es, .ok ran')) (hnew : (ri, given) ∉ ran) :
    (ri, given) ∈ topKeys es := by
  have hr := runRecipe_sound P cfg env fuel false ri given ran k es (.ok ran') h
  have hg : TopGood ran es (.ok ran') := once_all hac hr
  have hin : (ri, given) ∈ ran' := by
    cases hr with
    | memo hm => exact absurd hm hnew
    | done => exact List.mem_cons_self ..
  rcases (hg.2.2 ran' rfl (ri, given)).mp hin with h | h
  · exact absurd h hnew
  · exact h

/-! ### only what is reachable runs -/

inductive Reach (P : Prog) : Nat → Nat → Prop where
  | refl (ri : Nat) : Reach P ri ri
  | step {ri rj : Nat} {r : Recipe} {d : Dep} : P.recipes[ri]? = some r →
      (d ∈ r.priors ∨ d ∈ r.subs) → Reach P d.target rj → Reach P ri rj

def ReachB (P : Prog) : Call → List Ev → Prop
  | .recipe _ _ ri _ _ _, es => ∀ rj ∈ bodyRecipes es, Reach P ri rj
  | .deps _ _ ds _ _ _, es => ∀ rj ∈ bodyRecipes es, ∃ d ∈ ds, Reach P d.target rj

theorem only_reachable_all {P : Prog} {cfg : Cfg} {env : Env}
    {c : Call} {es : List Ev} {res : Except Err Ran} (h : Runs P cfg env c es res) :
    ReachB P c es := by
  induction h with
  | memo _ => intro rj h; cases h
  | outOfFuel => intro rj h; cases h
  | noRecipe _ _ => intro rj h; cases h
  | notConfirmed _ _ _ _ => intro rj h; simp [bodyRecipes] at h
  | bindFail _ _ _ hb =>
    intro rj h
    have := bodyRecipes_leaf (bindParams_leaf' hb)
    simp_all
  | @priorsFail fuel sub ri given ran k r e1 ps e2 e _ hr _ hb _ ih =>
    intro rj h
    have h1 : bodyRecipes e1 = [] :=
      bodyRecipes_leaf (bindParams_leaf' hb)
    simp only [bodyRecipes_append, bodyRecipes_prompt, h1, List.nil_append, List.append_nil] at h
    obtain ⟨d, hd, hre⟩ := ih rj h
    exact .step hr (Or.inl hd) hre
  | @bodyFail fuel sub ri given ran k r e1 ps e2 ran1 e3 e _ hr _ hb _ hbody ih =>
    intro rj h
    have h1 : bodyRecipes e1 = [] :=
      bodyRecipes_leaf (bindParams_leaf' hb)
    have h3 : bodyRecipes e3 = [] :=
      bodyRecipes_leaf (runBody_leaf' hbody)
    simp only [bodyRecipes_append, bodyRecipes_prompt, h1, h3, List.nil_append, List.append_nil,
      bodyRecipes, List.mem_append, List.mem_singleton] at h
    rcases h with h | h
    · obtain ⟨d, hd, hre⟩ := ih rj h
      exact .step hr (Or.inl hd) hre
    · subst h; exact .refl _
  | @subsFail fuel sub ri given ran k r e1 ps e2 ran1 e3 e4 e _ hr _ hb _ hbody _ ih2 ih4 =>
    intro rj h
    have h1 : bodyRecipes e1 = [] :=
      bodyRecipes_leaf (bindParams_leaf' hb)
    have h3 : bodyRecipes e3 = [] :=
      bodyRecipes_leaf (runBody_leaf' hbody)
    simp only [bodyRecipes_append, bodyRecipes_prompt, h1, h3, List.nil_append, List.append_nil,
      bodyRecipes, List.mem_append, List.mem_singleton] at h
    rcases h with (h | h) | h
    · obtain ⟨d, hd, hre⟩ := ih2 rj h
      exact .step hr (Or.inl hd) hre
    · subst h; exact .refl _
    · obtain ⟨d, hd, hre⟩ := ih4 rj h
      exact .step hr (Or.inr hd) hre
  | @done fuel sub ri given ran k r e1 ps e2 ran1 e3 e4 ranS _ hr _ hb _ hbody _ ih2 ih4 =>
    intro rj h
    have h1 : bodyRecipes e1 = [] :=
      bodyRecipes_leaf (bindParams_leaf' hb)
    have h3 : bodyRecipes e3 = [] :=
      bodyRecipes_leaf (runBody_leaf' hbody)
    simp only [bodyRecipes_append, bodyRecipes_prompt, h1, h3, List.nil_append, List.append_nil,
      bodyRecipes, List.mem_append, List.mem_singleton] at h
    rcases h with (h | h) | h
    · obtain ⟨d, hd, hre⟩ := ih2 rj h
      exact .step hr (Or.inl hd) hre
    · subst h; exact .refl _
    · obtain ⟨d, hd, hre⟩ := ih4 rj h
      exact .step hr (Or.inr hd) hre
  | depsNil => intro rj h; cases h
  | depsSkip _ => intro rj h; cases h
  | @depsEvalFail fuel sub d ds ps ran k e1 e _ he =>
    intro rj h
    have := bodyRecipes_leaf (evalList_leaf' he)
    simp_all
  | @depsRecFail fuel sub d ds ps ran k e1 given e2 e _ he _ ih =>
    intro rj h
    have h1 : bodyRecipes e1 = [] :=
      bodyRecipes_leaf (evalList_leaf' he)
    simp only [bodyRecipes_append, h1, List.nil_append] at h
    exact ⟨d, List.mem_cons_self .., ih rj h⟩
  | @depsCons fuel sub d ds ps ran k e1 given e2 ran1 e3 res _ he _ _ ih2 ih3 =>
    intro rj h
    have h1 : bodyRecipes e1 = [] :=
      bodyRecipes_leaf (evalList_leaf' he)
    simp only [bodyRecipes_append, h1, List.nil_append, List.mem_append] at h
    rcases h with h | h
    · exact ⟨d, List.mem_cons_self .., ih2 rj h⟩
    · obtain ⟨d', hd', hre⟩ := ih3 rj h
      exact ⟨d', List.mem_cons_of_mem _ hd', hre⟩

/-- **nothing runs that was neither requested nor reachable through dependencies** -/
theorem only_reachable (P : Prog) (cfg : Cfg) (env : Env) (fuel : Nat) (sub : Bool) (ri : Nat)
    (given : Args) (ran : Ran) (k : Nat) :
    ∀ rj ∈ bodyRecipes (runRecipe P cfg env fuel sub ri given ran k).1, Reach P ri rj :=
  only_reachable_all (runRecipe_sound P cfg env fuel sub ri given ran k _ _ rfl)

/-! ### priors before the body, subsequents right after it -/

/-- successful calls record what they were asked to run and never forget -/
def DepB (cfg : Cfg) (env : Env) : Call → Except Err Ran → Prop
  | .recipe _ _ ri given ran _, res => ∀ ran', res = .ok ran' →
      (∀ key ∈ ran, key ∈ ran') ∧ (ri, given) ∈ ran'
  | .deps _ _ ds ps ran _, res => ∀ ran', res = .ok ran' →
      (∀ key ∈ ran, key ∈ ran') ∧
      (cfg.noDeps = false → ∀ d ∈ ds, ∃ e1 given, evalList cfg env ps d.args = (e1, .ok given) ∧
        (d.target, given) ∈ ran')

theorem deps_recorded {P : Prog} {cfg : Cfg} {env : Env}
    {c : Call} {es : List Ev} {res : Except Err Ran} (h : Runs P cfg env c es res) :
    DepB cfg env c res := by
  induction h with
  | memo hm => intro ran' h; cases h; exact ⟨fun _ hk => hk, hm⟩
  | outOfFuel => intro ran' h; cases h
  | noRecipe _ _ => intro ran' h; cases h
  | notConfirmed _ _ _ _ => intro ran' h; cases h
  | bindFail _ _ _ _ => intro ran' h; cases h
  | priorsFail _ _ _ _ _ _ => intro ran' h; cases h
  | bodyFail _ _ _ _ _ _ _ => intro ran' h; cases h
  | subsFail _ _ _ _ _ _ _ _ _ => intro ran' h; cases h
  | done _ _ _ _ _ _ _ ih2 _ =>
    intro ran' h; cases h
    have := ih2 _ rfl
    exact ⟨fun key hk => List.mem_cons_of_mem _ (this.1 key hk), List.mem_cons_self ..⟩
  | depsNil =>
    intro ran' h; cases h
    exact ⟨fun _ hk => hk, fun _ d hd => by cases hd⟩
  | depsSkip hs =>
    intro ran' h; cases h
    exact ⟨fun _ hk => hk, fun hn => by rw [hs] at hn; cases hn⟩
  | depsEvalFail _ _ => intro ran' h; cases h
  | depsRecFail _ _ _ _ => intro ran' h; cases h
  | @depsCons fuel sub d ds ps ran k e1 given e2 ran1 e3 res hnd he _ _ ih2 ih3 =>
    intro ran' h
    have h2 := ih2 ran1 rfl
    have h3 := ih3 ran' h
    refine ⟨fun key hk => h3.1 key (h2.1 key hk), ?_⟩
    intro _ d' hd'
    rcases List.mem_cons.mp hd' with hd' | hd'
    · subst hd'
      exact ⟨e1, given, he, h3.1 _ h2.2⟩
    · exact h3.2 hnd d' hd'

/-- whatever a successful call added to the memo started its body during that call -/
def SoundB : Call → List Ev → Except Err Ran → Prop
  | .recipe _ sub _ _ ran _, es, res => ∀ ran', res = .ok ran' →
      ∀ key ∈ ran', key ∈ ran ∨ Ev.body key.1 key.2 sub ∈ es
  | .deps _ sub _ _ ran _, es, res => ∀ ran', res = .ok ran' →
      ∀ key ∈ ran', key ∈ ran ∨ Ev.body key.1 key.2 sub ∈ es

theorem memo_sound {P : Prog} {cfg : Cfg} {env : Env}
    {c : Call} {es : List Ev} {res : Except Err Ran} (h : Runs P cfg env c es res) :
    SoundB c es res := by
  induction h with
  | memo _ => intro ran' h; cases h; exact fun _ hk => Or.inl hk
  | outOfFuel => intro ran' h; cases h
  | noRecipe _ _ => intro ran' h; cases h
  | notConfirmed _ _ _ _ => intro ran' h; cases h
  | bindFail _ _ _ _ => intro ran' h; cases h
  | priorsFail _ _ _ _ _ _ => intro ran' h; cases h
  | bodyFail _ _ _ _ _ _ _ => intro ran' h; cases h
  | subsFail _ _ _ _ _ _ _ _ _ => intro ran' h; cases h
  | done _ _ _ _ _ _ _ ih2 _ =>
    intro ran' h key hk; cases h
    rcases List.mem_cons.mp hk with hk | hk
    · subst hk; right; simp
    · rcases ih2 _ rfl key hk with h | h
      · exact Or.inl h
      · right; simp [h]
  | depsNil => intro ran' h; cases h; exact fun _ hk => Or.inl hk
  | depsSkip _ => intro ran' h; cases h; exact fun _ hk => Or.inl hk
  | depsEvalFail _ _ => intro ran' h; cases h
  | depsRecFail _ _ _ _ => intro ran' h; cases h
  | depsCons _ _ _ _ ih2 ih3 =>
    intro ran' h key hk
    rcases ih3 ran' h key hk with h3 | h3
    · rcases ih2 _ rfl key h3 with h2 | h2
      · exact Or.inl h2
      · right; simp [h2]
    · right; simp [h3]

/-- Shape of a successful, non-memoised invocation (inversion of the executable model). -/
theorem runRecipe_done_inv {P : Prog} {cfg : Cfg} {env : Env} {fuel : Nat} {sub : Bool} {ri : Nat}
    {given : Args} {ran ran' : Ran} {k : Nat} {es : List Ev}
    (h : runRecipe P cfg env fuel sub ri given ran k = (es, .ok ran')) (hnew : (ri, given) ∉ ran) :
    ∃ n r e1 ps e2 ran1 e3 e4 ranS, fuel = n + 1 ∧ P.recipes[ri]? = some r ∧
      bindParams cfg env r.params given [] = (e1, .ok ps) ∧
      runDeps P cfg env n sub r.priors ps ran (k + countPrompts (promptOf cfg r ri)) = (e2, .ok ran1) ∧
      runBody cfg env ri r given ps = (e3, .ok ()) ∧
      runDeps P cfg env n true r.subs ps []
        (k + countPrompts (promptOf cfg r ri) + countPrompts e2) = (e4, .ok ranS) ∧
      es = promptOf cfg r ri ++ e1 ++ e2 ++ [Ev.body ri given sub] ++ e3 ++ e4 ∧
      ran' = (ri, given) :: ran1 := by
  cases fuel with
  | zero => rw [runRecipe_zero] at h; cases h
  | succ n =>
    rw [runRecipe] at h
    split at h
    · rename_i hm; exact absurd hm hnew
    · split at h
      · cases h
      · rename_i r hr
        simp only at h
        split at h
        · split at h <;> cases h
        · have hp : (if (r.confirm && !cfg.yes) = true then [Ev.prompt ri] else []) = promptOf cfg r ri := rfl
          rw [hp] at h
          split at h
          · cases h
          · rename_i e1 ps heq
            split at h
            · cases h
            · rename_i e2 ran1 heq2
              split at h
              · cases h
              · rename_i e3 heq3
                split at h
                · cases h
                · rename_i e4 ranS heq4
                  cases h
                  exact ⟨n, r, e1, ps, e2, ran1, e3, e4, ranS, rfl, hr, heq, heq2, heq3, heq4, rfl, rfl⟩

/-- **priors first, subsequents right after**: a successful invocation that was not memoised has
the trace  `prompt? ++ parameter-backticks ++ PRIORS ++ [body label] ++ BODY ++ SUBSEQUENTS`
where PRIORS is the run of the prior dependencies in declared order sharing the caller's memo,
SUBSEQUENTS is the run of the `&&` dependencies in declared order starting from an *empty* memo,
and every prior dependency call `(target, evaluated arguments)` either was already in the memo or
started its body inside PRIORS, i.e. strictly before the body label. -/
theorem priors_first_subsequents_after {P : Prog} {cfg : Cfg} {env : Env} {fuel : Nat} {sub : Bool}
    {ri : Nat} {given : Args} {ran ran' : Ran} {k : Nat} {es : List Ev}
    (h : runRecipe P cfg env fuel sub ri given ran k = (es, .ok ran')) (hnew : (ri, given) ∉ ran)
    (hnd : cfg.noDeps = false) :
    ∃ n r e1 ps pri bodyEvs subsEvs ran1 ranS,
      fuel = n + 1 ∧ P.recipes[ri]? = some r ∧
      bindParams cfg env r.params given [] = (e1, .ok ps) ∧
      es = (promptOf cfg r ri ++ e1 ++ pri) ++ Ev.body ri given sub :: (bodyEvs ++ subsEvs) ∧
      runDeps P cfg env n sub r.priors ps ran (k + countPrompts (promptOf cfg r ri)) = (pri, .ok ran1) ∧
      runBody cfg env ri r given ps = (bodyEvs, .ok ()) ∧
      runDeps P cfg env n true r.subs ps []
        (k + countPrompts (promptOf cfg r ri) + countPrompts pri) = (subsEvs, .ok ranS) ∧
      (∀ d ∈ r.priors, ∃ ed args, evalList cfg env ps d.args = (ed, .ok args) ∧
        ((d.target, args) ∈ ran ∨ Ev.body d.target args sub ∈ pri)) ∧
      (∀ d ∈ r.subs, ∃ ed args, evalList cfg env ps d.args = (ed, .ok args) ∧
        Ev.body d.target args true ∈ subsEvs) := by
  obtain ⟨n, r, e1, ps, e2, ran1, e3, e4, ranS, hf, hr, hb, hp, hbody, hs, hes, _⟩ :=
    runRecipe_done_inv h hnew
  refine ⟨n, r, e1, ps, e2, e3, e4, ran1, ranS, hf, hr, hb, ?_, hp, hbody, hs, ?_, ?_⟩
  · rw [hes]; simp
  · intro d hd
    have hR := runDeps_sound P cfg env n _ _ _ _ _ _ _ hp
    obtain ⟨ed, args, he, hin⟩ := (deps_recorded hR ran1 rfl).2 hnd d hd
    exact ⟨ed, args, he, memo_sound hR ran1 rfl _ hin⟩
  · intro d hd
    have hR := runDeps_sound P cfg env n _ _ _ _ _ _ _ hs
    obtain ⟨ed, args, he, hin⟩ := (deps_recorded hR ranS rfl).2 hnd d hd
    rcases memo_sound hR ranS rfl _ hin with h | h
    · cases h
    · exact ⟨ed, args, he, h⟩

/-- **command-line recipes are started left to right**, threading one memo. -/
theorem cmdline_left_to_right (P : Prog) (cfg : Cfg) (env : Env) (fuel ri : Nat) (given : Args)
    (rest : List Key) (ran : Ran) (k : Nat) :
    runInvs P cfg env fuel ((ri, given) :: rest) ran k =
      match runRecipe P cfg env fuel false ri given ran k with
      | (e1, .error e) => (e1, .error e)
      | (e1, .ok ran1) =>
        ((e1 ++ (runInvs P cfg env fuel rest ran1 (k + countPrompts e1)).1),
          (runInvs P cfg env fuel rest ran1 (k + countPrompts e1)).2) := by
  simp only [runInvs]
  split <;> simp_all

/-- dependencies of one recipe are started in declared order -/
theorem deps_left_to_right (P : Prog) (cfg : Cfg) (env : Env) (fuel : Nat) (sub : Bool) (d : Dep)
    (ds : List Dep) (ps : Args) (ran : Ran) (k : Nat) (hnd : cfg.noDeps = false) :
    runDeps P cfg env fuel sub (d :: ds) ps ran k =
      match evalList cfg env ps d.args with
      | (e1, .error e) => (e1, .error e)
      | (e1, .ok given) =>
        match runRecipe P cfg env fuel sub d.target given ran k with
        | (e2, .error e) => (e1 ++ e2, .error e)
        | (e2, .ok ran1) =>
          (e1 ++ e2 ++ (runDeps P cfg env fuel sub ds ps ran1 (k + countPrompts e2)).1,
            (runDeps P cfg env fuel sub ds ps ran1 (k + countPrompts e2)).2) := by
  rw [runDeps]
  simp only [hnd, Bool.false_eq_true, if_false]
  cases h1 : evalList cfg env ps d.args with
  | mk e1 r1 =>
    cases r1 with
    | error e => rfl
    | ok gv =>
      simp only
      cases h2 : runRecipe P cfg env fuel sub d.target gv ran k with
      | mk e2 r2 =>
        cases r2 with
        | error e => rfl
        | ok ran1 => simp

/-! ### the recursion never runs out of fuel on acyclic graphs -/

def FuelB (rank : Nat → Nat) : Call → Except Err Ran → Prop
  | .recipe fuel _ ri _ _ _, res => rank ri < fuel → res ≠ .error .fuel
  | .deps fuel _ ds _ _ _, res => (∀ d ∈ ds, rank d.target < fuel) → res ≠ .error .fuel

/-- the outcome is not the artificial out-of-fuel error -/
def NoFuel {α : Type} (r : Except Err α) : Prop := ∀ e, r = .error e → e ≠ .fuel

theorem NoFuel.ok {α : Type} (a : α) : NoFuel (.ok a : Except Err α) := by intro e h; cases h

theorem NoFuel.err {α : Type} {e : Err} (h : e ≠ .fuel) : NoFuel (.error e : Except Err α) := by
  intro e' h'; cases h'; exact h

theorem NoFuel.cast {α β : Type} {e : Err} (h : NoFuel (.error e : Except Err α)) :
    NoFuel (.error e : Except Err β) := NoFuel.err (h e rfl)

theorem toErr_no_fuel (s : Status) (e : Err) (h : s.toErr = some e) : e ≠ .fuel := by
  cases s <;> simp [Status.toErr] at h <;> (subst h; simp)

theorem evalA_no_fuel (cfg : Cfg) (env : Env) (ps : Args) (a : AExpr) :
    NoFuel (evalA cfg env ps a).2 := by
  induction a with
  | lit s => simp only [evalA]; exact NoFuel.ok _
  | param i => simp only [evalA]; split <;> first | exact NoFuel.ok _ | exact NoFuel.err (by simp)
  | cat a b iha ihb =>
    simp only [evalA]
    split
    · rename_i e1 e heq; rw [heq] at iha; exact iha
    · rename_i e1 x heq
      split
      · rename_i e2 e heq2; rw [heq2] at ihb; exact ihb
      · exact NoFuel.ok _
  | bt c =>
    simp only [evalA]
    split
    · exact NoFuel.ok _
    · split
      · exact NoFuel.ok _
      · rename_i e he
        exact NoFuel.err (toErr_no_fuel _ _ he)

theorem evalList_no_fuel (cfg : Cfg) (env : Env) (ps : Args) (as : List AExpr) :
    NoFuel (evalList cfg env ps as).2 := by
  induction as with
  | nil => simp only [evalList]; exact NoFuel.ok _
  | cons a as ih =>
    simp only [evalList]
    have ha := evalA_no_fuel cfg env ps a
    split
    · rename_i e1 e heq; rw [heq] at ha; exact ha.cast
    · split
      · rename_i e2 e heq2; rw [heq2] at ih; exact ih
      · exact NoFuel.ok _

theorem bindParams_no_fuel (cfg : Cfg) (env : Env) (ps : List (Option AExpr)) (ws bound : Args) :
    NoFuel (bindParams cfg env ps ws bound).2 := by
  induction ps generalizing ws bound with
  | nil => simp only [bindParams]; exact NoFuel.ok _
  | cons p ps ih =>
    cases ws with
    | cons w ws => simp only [bindParams]; exact ih ws _
    | nil =>
      cases p with
      | none => simp only [bindParams]; exact NoFuel.err (by simp)
      | some d =>
        simp only [bindParams]
        have ha := evalA_no_fuel cfg env bound d
        split
        · rename_i e1 e heq; rw [heq] at ha; exact ha.cast
        · exact ih [] _

theorem runCmd_no_fuel (cfg : Cfg) (env : Env) (ri : Nat) (r : Recipe) (given : Args) (l : Line)
    (cmd : String) : NoFuel (runCmd cfg env ri r given l cmd).2 := by
  unfold runCmd
  simp only
  split
  · exact NoFuel.ok _
  · split
    · exact NoFuel.ok _
    · rename_i e he
      cases l.infallible
      · exact NoFuel.err (toErr_no_fuel _ _ he)
      · exact NoFuel.ok _

theorem runLines_no_fuel (cfg : Cfg) (env : Env) (ri : Nat) (r : Recipe) (given ps : Args)
    (ls : List Line) : NoFuel (runLines cfg env ri r given ps ls).2 := by
  induction ls with
  | nil => simp only [runLines]; exact NoFuel.ok _
  | cons l ls ih =>
    simp only [runLines]
    have ha := evalList_no_fuel cfg env ps l.frags
    split
    · rename_i e1 e heq; rw [heq] at ha; exact ha.cast
    · split
      · exact ih
      · have hc := runCmd_no_fuel cfg env ri r given l (concat ‹List String›)
        split
        · rename_i e2 e heq2; rw [heq2] at hc; exact hc
        · exact ih

theorem evalLines_no_fuel (cfg : Cfg) (env : Env) (ps : Args) (ls : List Line) :
    NoFuel (evalLines cfg env ps ls).2 := by
  induction ls with
  | nil => simp only [evalLines]; exact NoFuel.ok _
  | cons l ls ih =>
    simp only [evalLines]
    have ha := evalList_no_fuel cfg env ps l.frags
    split
    · rename_i e1 e heq; rw [heq] at ha; exact ha.cast
    · split
      · rename_i e2 e heq2; rw [heq2] at ih; exact ih
      · exact NoFuel.ok _

theorem runBody_no_fuel (cfg : Cfg) (env : Env) (ri : Nat) (r : Recipe) (given ps : Args) :
    NoFuel (runBody cfg env ri r given ps).2 := by
  unfold runBody
  split
  · unfold runScript
    have ha := evalLines_no_fuel cfg env ps r.body
    split
    · rename_i e1 e heq; rw [heq] at ha; exact ha.cast
    · simp only
      split
      · exact NoFuel.ok _
      · split
        · exact NoFuel.ok _
        · rename_i e he
          exact NoFuel.err (toErr_no_fuel _ _ he)
  · exact runLines_no_fuel cfg env ri r given ps r.body

theorem fuel_enough_all {P : Prog} {cfg : Cfg} {env : Env} {rank : Nat → Nat} (hac : Acyclic P rank)
    {c : Call} {es : List Ev} {res : Except Err Ran} (h : Runs P cfg env c es res) :
    FuelB rank c res := by
  induction h with
  | memo _ => intro _; simp
  | outOfFuel => intro h; omega
  | noRecipe _ _ => intro _; simp
  | notConfirmed _ _ _ _ => intro _; simp
  | @bindFail fuel sub ri given ran k r e1 e _ _ _ hb =>
    intro _
    have := bindParams_no_fuel cfg env r.params given []
    rw [hb] at this
    intro hc; cases hc; exact this _ rfl rfl
  | @priorsFail fuel sub ri given ran k r e1 ps e2 e _ hr _ _ _ ih =>
    intro hlt
    exact ih (fun d hd => by have := hac ri r hr d (Or.inl hd); omega)
  | @bodyFail fuel sub ri given ran k r e1 ps e2 ran1 e3 e _ _ _ _ _ hbody _ =>
    intro _
    have := runBody_no_fuel cfg env ri r given ps
    rw [hbody] at this
    intro hc; cases hc; exact this _ rfl rfl
  | @subsFail fuel sub ri given ran k r e1 ps e2 ran1 e3 e4 e _ hr _ _ _ _ _ _ ih4 =>
    intro hlt
    exact ih4 (fun d hd => by have := hac ri r hr d (Or.inr hd); omega)
  | done _ _ _ _ _ _ _ _ _ => intro _; simp
  | depsNil => intro _; simp
  | depsSkip _ => intro _; simp
  | @depsEvalFail fuel sub d ds ps ran k e1 e _ he =>
    intro _
    have := evalList_no_fuel cfg env ps d.args
    rw [he] at this
    intro hc; cases hc; exact this _ rfl rfl
  | @depsRecFail fuel sub d ds ps ran k e1 given e2 e _ _ _ ih =>
    intro hall
    exact ih (hall d (List.mem_cons_self ..))
  | @depsCons fuel sub d ds ps ran k e1 given e2 ran1 e3 res _ _ _ _ _ ih3 =>
    intro hall
    exact ih3 (fun d' hd' => hall d' (List.mem_cons_of_mem _ hd'))

/-- **termination**: on an acyclic graph, fuel above the rank of the requested recipe is never
exhausted — the model's answer is a genuine outcome of the recursion, not a cut-off. -/
theorem fuel_enough (P : Prog) (cfg : Cfg) (env : Env) (rank : Nat → Nat) (hac : Acyclic P rank)
    (fuel : Nat) (sub : Bool) (ri : Nat) (given : Args) (ran : Ran) (k : Nat) (hf : rank ri < fuel) :
    (runRecipe P cfg env fuel sub ri given ran k).2 ≠ .error .fuel :=
  fuel_enough_all hac (runRecipe_sound P cfg env fuel sub ri given ran k _ _ rfl) hf

/-! ### non-vacuity -/

/-- a concrete diamond with a shared setup recipe and a subsequent is acyclic -/
example :
    let dep (t : Nat) : Dep := ⟨t, []⟩
    let mk (ps ss : List Dep) : Recipe := { params := [], priors := ps, subs := ss, body := [] }
    Acyclic ⟨[], [mk [dep 1, dep 2] [dep 3], mk [dep 3] [], mk [dep 3] [], mk [] []]⟩
      (fun i => 4 - i) := by
  intro dep mk ri r hr d hd
  match ri, hr with
  | 0, hr => simp at hr; subst hr; simp [mk, dep] at hd; rcases hd with (h | h) | h <;> subst h <;> simp
  | 1, hr => simp at hr; subst hr; simp [mk, dep] at hd; subst hd; simp
  | 2, hr => simp at hr; subst hr; simp [mk, dep] at hd; subst hd; simp
  | 3, hr => simp at hr; subst hr; simp [mk] at hd
  | n + 4, hr => simp at hr

end Just.Props.C01
