/-
C13 — fatal signals: wait for the running child, then stop; never orphan it.
Theorems over the transition system `Just.Signals`, for every command sequence and EVERY
interleaving of signal deliveries (schedules are universally quantified step lists).
-/
import Just.Model.Signals
namespace Just.Props.C13
open Just.Signals Just.Run

/-! ### never exit while a command is running -/

theorem afterChild_running (s : St) (c : Cmd) (st : Status) : (afterChild s c st).running = none := by
  unfold afterChild
  simp only
  split
  · split
    · split <;> rfl
    · rfl
  · split
    · split <;> rfl
    · split
      · rfl
      · split <;> rfl

theorem step_exit_inv (record : Bool) (s : St) (x : Step)
    (h : s.exited.isSome → s.running = none) :
    (step record s x).exited.isSome → (step record s x).running = none := by
  unfold step
  split
  · exact h
  · rename_i hne
    cases x with
    | signal g =>
      simp only
      split
      · rename_i hr; intro _; exact hr
      · intro hx; simp at hx; simp_all
    | spawn =>
      simp only
      split
      · intro hx; simp at hx; simp_all
      · exact h
    | finish st =>
      simp only
      split
      · exact h
      · intro _; exact afterChild_running _ _ _

/-- **just never exits while a command it started is still running**: in every state reachable by
any schedule, `exited` implies that no child is registered. -/
theorem never_exit_with_child (record : Bool) (cmds : List Cmd) (steps : List Step) :
    (run record (init cmds) steps).exited.isSome → (run record (init cmds) steps).running = none := by
  have : ∀ (steps : List Step) (s : St), (s.exited.isSome → s.running = none) →
      (run record s steps).exited.isSome → (run record s steps).running = none := by
    intro steps
    induction steps with
    | nil => intro s h; exact h
    | cons x xs ih => intro s h; exact ih _ (step_exit_inv record s x h)
  exact this steps _ (by intro h; simp [init] at h)

/-! ### nothing is started after an interrupted fallible command -/

/-- the run is doomed: already exited, or a signal is remembered while a fallible command runs -/
def Doomed (s : St) : Prop :=
  s.exited.isSome ∨ (s.caught.isSome ∧ ∃ c, s.running = some c ∧ c.infallible = false)

theorem afterChild_doomed (s : St) (c : Cmd) (st : Status) (hc : s.caught.isSome)
    (hf : c.infallible = false) : (afterChild s c st).exited.isSome := by
  unfold afterChild
  simp only [hf]
  split
  · simp
  · cases hcg : s.caught with
    | none => rw [hcg] at hc; simp at hc
    | some g => simp

theorem afterChild_spawned (s : St) (c : Cmd) (st : Status) : (afterChild s c st).spawned = s.spawned := by
  unfold afterChild
  simp only
  split
  · split
    · split <;> rfl
    · rfl
  · split
    · split <;> rfl
    · split
      · rfl
      · split <;> rfl

theorem step_doomed (s : St) (x : Step) (h : Doomed s) :
    Doomed (step true s x) ∧ (step true s x).spawned = s.spawned := by
  unfold step
  split
  · exact ⟨h, rfl⟩
  · rename_i hne
    rcases h with h | ⟨hc, c, hr, hf⟩
    · exact absurd h hne
    · cases x with
      | signal g =>
        simp only [hr]
        refine ⟨Or.inr ⟨?_, c, rfl, hf⟩, trivial⟩
        cases hcg : s.caught <;> simp
      | spawn =>
        simp only [hr]
        exact ⟨Or.inr ⟨hc, c, hr, hf⟩, trivial⟩
      | finish st =>
        simp only [hr]
        exact ⟨Or.inl (afterChild_doomed s c st hc hf), afterChild_spawned s c st⟩

theorem run_doomed (steps : List Step) : ∀ s, Doomed s →
    (run true s steps).spawned = s.spawned ∧ Doomed (run true s steps) := by
  induction steps with
  | nil => intro s h; exact ⟨rfl, h⟩
  | cons x xs ih =>
    intro s h
    obtain ⟨hd, hs⟩ := step_doomed s x h
    obtain ⟨h1, h2⟩ := ih _ hd
    exact ⟨by simp only [run]; rw [h1, hs], h2⟩

/-- **no further command once the interrupted one has ended**: if a fatal signal is processed at a
moment when a command that is not a `-` line is running, then — whatever happens afterwards, in
any order, including the command ending successfully — no further recipe line, backtick, script or
dependency is ever spawned (with the repaired handler, `record = true`). -/
theorem no_spawn_after_caught (cmds : List Cmd) (pre post : List Step) (g : Sig) (c : Cmd)
    (hrun : (run true (init cmds) pre).running = some c) (hf : c.infallible = false)
    (hne : (run true (init cmds) pre).exited = none) :
    (run true (step true (run true (init cmds) pre) (.signal g)) post).spawned =
      (run true (init cmds) pre).spawned := by
  have hd : Doomed (step true (run true (init cmds) pre) (.signal g)) := by
    right
    unfold step
    simp only [hne, Option.isSome_none, Bool.false_eq_true, if_false, hrun]
    refine ⟨?_, c, rfl, hf⟩
    cases (run true (init cmds) pre).caught <;> simp
  have hs : (step true (run true (init cmds) pre) (.signal g)).spawned =
      (run true (init cmds) pre).spawned := by
    unfold step
    simp only [hne, Option.isSome_none, Bool.false_eq_true, if_false, hrun]
  rw [(run_doomed post _ hd).1, hs]

/-- and it does stop: as soon as that command ends, just exits -/
theorem exits_when_child_ends (s : St) (c : Cmd) (st : Status) (hne : s.exited = none)
    (hr : s.running = some c) (hf : c.infallible = false) (hc : s.caught.isSome) :
    (step true s (.finish st)).exited.isSome := by
  unfold step
  simp only [hne, Option.isSome_none, Bool.false_eq_true, if_false, hr]
  exact afterChild_doomed s c st hc hf

/-! ### exit codes -/

/-- **exit status**: 128+signal if the interrupted command succeeded, otherwise the command's own
failure status (which is 128+n when it died from signal n, e.g. from the delivered signal). -/
theorem exit_code (s : St) (c : Cmd) (st : Status) (g : Sig) (hne : s.exited = none)
    (hr : s.running = some c) (hf : c.infallible = false) (hc : s.caught = some g) :
    (step true s (.finish st)).exited = some (match st with
      | .ok => 128 + g.num
      | .code n => n
      | .signal n => 128 + n) := by
  unfold step
  simp only [hne, Option.isSome_none, Bool.false_eq_true, if_false, hr]
  unfold afterChild
  cases st <;> simp [Status.toErr, hf, hc, Err.exit]

/-- **idle**: with no command running the signal makes just exit at once with 128+signal -/
theorem idle_exits_at_once (record : Bool) (s : St) (g : Sig) (hne : s.exited = none)
    (hr : s.running = none) : (step record s (.signal g)).exited = some (128 + g.num) := by
  unfold step
  simp [hne, hr]

/-- the first signal is the one reported -/
theorem first_signal_kept (s : St) (c : Cmd) (g g' : Sig) (hne : s.exited = none)
    (hr : s.running = some c) (hc : s.caught = some g) :
    (step true s (.signal g')).caught = some g := by
  unfold step
  simp [hne, hr, hc]

/-- **SIGTERM is forwarded** to the running command, the other signals are not -/
theorem sigterm_forwarded (record : Bool) (s : St) (c : Cmd) (g : Sig) (hne : s.exited = none)
    (hr : s.running = some c) :
    (step record s (.signal g)).forwarded = if g = .term then s.forwarded + 1 else s.forwarded := by
  unfold step
  simp [hne, hr]

/-! ### the pinned Linux behaviour (`record = false`) violates the property -/

/-- With the handler that does not remember the signal (the pinned source on Linux): SIGINT while
line 1 runs, line 1 then exits 0 — line 2 is spawned and just exits 0. -/
theorem unrecorded_signal_is_forgotten :
    let s := run false (init [⟨false⟩, ⟨false⟩]) [.spawn, .signal .int, .finish .ok, .spawn, .finish .ok]
    s.spawned = 2 ∧ s.exited = some 0 := by
  decide

/-- the same schedule with the repaired handler: line 2 never starts, exit 130 -/
theorem recorded_signal_stops :
    let s := run true (init [⟨false⟩, ⟨false⟩]) [.spawn, .signal .int, .finish .ok, .spawn, .finish .ok]
    s.spawned = 1 ∧ s.exited = some 130 := by
  decide

/-- **the signals of the model are the signals of the source**: the four fatal signals and their
numbers are exactly the variants `enum Signal` has on this platform (`Generated.signalTable` is
regenerated from src/signal.rs on every run, so a change there breaks this theorem) -/
theorem signals_match_source :
    [Sig.hup, Sig.int, Sig.quit, Sig.term].map (fun g => (g.variant, g.num)) = Generated.signalTable := by
  decide

end Just.Props.C13
