import Just.Model.Body
/-
C06  Recipe text reaches the selected shell or interpreter verbatim.

Model: `Just.Body` (line.rs, evaluate_line, run_linewise, Executor::script, Settings::shell,
run_script's interpreter choice).  Tie to the code: vlib/c06.py runs generated bodies through the
binary with a logging shell / interpreter and compares argv and script files with this model and
with an oracle computed from the generator's own construction.
-/
namespace Just.C06
open Just.Body

/-! ### interpolations and text are passed verbatim -/

/-- what a fragment contributes: text with `{{{{` read as `{{`, an interpolation's value as it is -/
def fragText : Frag → List Char
  | .text s => unescape s
  | .interp v => v

theorem evalRest_eq (fs : List Frag) : evalRest fs = (fs.map fragText).flatten := by
  induction fs with
  | nil => rfl
  | cons f fs ih => cases f <;> simp [evalRest, fragText, ih]

/-- A line that does not continue a previous one is the plain concatenation of its fragments:
nothing is trimmed, quoted or re-ordered, wherever the interpolations stand. -/
theorem line_verbatim (l : Line) : evalLine l false = (l.frags.map fragText).flatten := by
  unfold evalLine
  split
  · rename_i s fs h
    simp [h, evalRest_eq, fragText]
  · exact evalRest_eq _

/-- On a continuation line only the indentation — leading white space of a leading TEXT fragment —
is dropped. -/
theorem continued_text (s : List Char) (fs : List Frag) (n : Nat) :
    evalLine ⟨.text s :: fs, n⟩ true = trimStart (unescape s) ++ ((fs.map fragText).flatten) := by
  simp [evalLine, evalRest_eq]

/-- A value interpolated at the head of a continuation line is not touched, even when it begins
with white space. -/
theorem continued_value_untouched (v : List Char) (fs : List Frag) (n : Nat) :
    evalLine ⟨.interp v :: fs, n⟩ true = v ++ ((fs.map fragText).flatten) := by
  simp [evalLine, evalRest, evalRest_eq]

/-- `{{{{` becomes `{{`; every other character is kept -/
theorem unescape_escape (rest : List Char) : unescape ('{' :: '{' :: '{' :: '{' :: rest) = '{' :: '{' :: unescape rest := by
  simp [unescape]

theorem unescape_plain (s : List Char) (h : '{' ∉ s) : unescape s = s := by
  induction s with
  | nil => rfl
  | cons c cs ih =>
    have hc : c ≠ '{' := fun e => h (by simp [e])
    have hcs : '{' ∉ cs := fun e => h (by simp [e])
    unfold unescape
    split
    · rename_i heq; simp only [List.cons.injEq] at heq; exact absurd heq.1 hc
    · rename_i c' r _ heq; simp only [List.cons.injEq] at heq; obtain ⟨rfl, rfl⟩ := heq; rw [ih hcs]
    · rename_i heq; cases heq

/-! ### one process per non-empty logical line, in body order -/

/-- text of a logical line: its physical lines joined, each continued line without its final
backslash, each continuation without its indentation -/
def joinGroup : List Line → Bool → List Char
  | [], _ => []
  | l :: ls, first =>
    (if l.isContinuation then (evalLine l (!first)).dropLast else evalLine l (!first)) ++ joinGroup ls false

/-- the command of a logical line (none if it is a skipped comment or empty after its sigils) -/
def cmdOf (ignoreComments : Bool) : List Line → List Cmd
  | [] => []
  | l :: ls =>
    if ignoreComments && l.isComment then []
    else emit ⟨joinGroup (l :: ls) true, l.isQuiet, l.isInfallible⟩

/-- logical lines: a line ending in a backslash is joined with the next one; with
`set ignore-comments` a comment line stands alone.  `cur` is the group under construction, reversed. -/
def groupsGo (ignoreComments : Bool) : List Line → List Line → List (List Line)
  | [], [] => []
  | cur, [] => [cur.reverse]
  | [], l :: ls =>
    if ignoreComments && l.isComment then [l] :: groupsGo ignoreComments [] ls
    else if l.isContinuation then groupsGo ignoreComments [l] ls
    else [l] :: groupsGo ignoreComments [] ls
  | c :: cur, l :: ls =>
    if l.isContinuation then groupsGo ignoreComments (l :: c :: cur) ls
    else (l :: c :: cur).reverse :: groupsGo ignoreComments [] ls

def groups (ignoreComments : Bool) (body : List Line) : List (List Line) := groupsGo ignoreComments [] body

theorem getLast?_append_ne {α : Type} (a b : List α) (hb : b ≠ []) : (a ++ b).getLast? = b.getLast? := by
  rw [List.getLast?_append]
  cases h : b.getLast? with
  | none => exact absurd (List.getLast?_eq_none_iff.mp h) hb
  | some x => rfl

theorem getLast?_cons_ne {α : Type} (a : α) (b : List α) (hb : b ≠ []) : (a :: b).getLast? = b.getLast? :=
  getLast?_append_ne [a] b hb

theorem ne_nil_of_getLast? {α : Type} {l : List α} {x : α} (h : l.getLast? = some x) : l ≠ [] := by
  intro e; subst e; simp at h

theorem unescape_getLast (s : List Char) (h : s.getLast? = some '\\') : (unescape s).getLast? = some '\\' := by
  induction s using unescape.induct with
  | case1 rest ih =>
    have hr : rest ≠ [] := by
      intro e; subst e; simp at h
    have e4 : ('{' :: '{' :: '{' :: '{' :: rest) = ['{', '{', '{', '{'] ++ rest := rfl
    rw [e4, getLast?_append_ne _ _ hr] at h
    have ih' := ih h
    rw [unescape_escape]
    have e2 : ('{' :: '{' :: unescape rest) = ['{', '{'] ++ unescape rest := rfl
    rw [e2, getLast?_append_ne _ _ (ne_nil_of_getLast? ih')]
    exact ih'
  | case2 c rest hne ih =>
    rw [unescape]
    · cases rest with
      | nil => simpa [unescape] using h
      | cons d ds =>
        rw [getLast?_cons_ne _ _ (by simp)] at h
        have ih' := ih h
        rw [getLast?_cons_ne _ _ (ne_nil_of_getLast? ih')]
        exact ih'
    · intro r e; exact hne r e
  | case3 => simp at h

theorem trimStart_getLast (s : List Char) (h : s.getLast? = some '\\') : (trimStart s).getLast? = some '\\' := by
  induction s with
  | nil => simp at h
  | cons c cs ih =>
    unfold trimStart
    rw [List.dropWhile_cons]
    split
    · cases cs with
      | nil =>
        simp only [List.getLast?_singleton, Option.some.injEq] at h
        subst h
        rename_i hw
        simp [isWhite] at hw
      | cons d ds =>
        rw [getLast?_cons_ne _ _ (by simp)] at h
        exact ih h
    · exact h

theorem getLast?_append_right {α : Type} (a b : List α) (x : α) (h : b.getLast? = some x) : (a ++ b).getLast? = some x := by
  rw [List.getLast?_append, h]; rfl

theorem evalRest_getLast (fs : List Frag) (s : List Char) (h1 : fs.getLast? = some (.text s)) (h2 : s.getLast? = some '\\') :
    (evalRest fs).getLast? = some '\\' := by
  induction fs with
  | nil => simp at h1
  | cons f fs ih =>
    cases fs with
    | nil =>
      simp only [List.getLast?_singleton, Option.some.injEq] at h1
      subst h1
      simpa [evalRest] using unescape_getLast s h2
    | cons g gs =>
      rw [getLast?_cons_ne _ _ (by simp)] at h1
      have hrec := ih h1
      cases f <;> simp only [evalRest] <;> exact getLast?_append_right _ _ _ hrec

/-- a line that continues ends, once evaluated, in the backslash that is then removed -/
theorem evalLine_continuation (l : Line) (c : Bool) (h : l.isContinuation = true) :
    (evalLine l c).getLast? = some '\\' := by
  unfold Line.isContinuation at h
  split at h
  · rename_i s hlast
    have h2 : s.getLast? = some '\\' := by simpa using h
    unfold evalLine
    split
    · rename_i t fs hf
      cases fs with
      | nil =>
        rw [hf] at hlast
        simp only [List.getLast?_singleton, Option.some.injEq, Frag.text.injEq] at hlast
        subst hlast
        simp only [evalRest, List.append_nil]
        split
        · exact trimStart_getLast _ (unescape_getLast _ h2)
        · exact unescape_getLast _ h2
      | cons g gs =>
        rw [hf] at hlast
        rw [getLast?_cons_ne _ _ (by simp)] at hlast
        exact getLast?_append_right _ _ _ (evalRest_getLast _ s hlast h2)
    · exact evalRest_getLast _ s hlast h2
  · cases h

theorem dropLast_append_ne {α : Type} (a b : List α) (h : b ≠ []) : (a ++ b).dropLast = a ++ b.dropLast := by
  exact List.dropLast_append_of_ne_nil h

theorem evalLine_continuation_ne (l : Line) (c : Bool) (h : l.isContinuation = true) : evalLine l c ≠ [] := by
  intro e
  have := evalLine_continuation l c h
  rw [e] at this
  simp at this

theorem reverse_head_of_getLast? {α : Type} {l : List α} {x : α} (h : l.getLast? = some x) : ∃ tl, l.reverse = x :: tl := by
  obtain ⟨ys, hys⟩ := List.getLast?_eq_some_iff.mp h
  exact ⟨ys.reverse, by rw [hys]; simp⟩

/-- the condition under which the loop, in the middle of a group `c :: cur` (reversed) with the
accumulated state `p`, agrees with the specification -/
def Mid (ic : Bool) (c : Line) (cur : List Line) (p : Pending) : Prop :=
  ∃ first, (c :: cur).getLast? = some first ∧ p.quiet = first.isQuiet ∧ p.infallible = first.isInfallible
    ∧ (ic && first.isComment) = false
    ∧ ∀ rest, joinGroup ((c :: cur).reverse ++ rest) true = p.text ++ joinGroup rest false

theorem goLines_spec (ic : Bool) (ls : List Line) :
    goLines ic none ls = ((groupsGo ic [] ls).map (cmdOf ic)).flatten ∧
    (∀ (c : Line) (cur : List Line) (p : Pending), Mid ic c cur p →
      goLines ic (some p) ls = ((groupsGo ic (c :: cur) ls).map (cmdOf ic)).flatten) := by
  induction ls with
  | nil =>
    refine ⟨by simp [goLines, groupsGo], ?_⟩
    intro c cur p ⟨first, hfirst, hq, hi, hic, htext⟩
    simp only [goLines, groupsGo, List.map_cons, List.map_nil, List.flatten_cons, List.flatten_nil, List.append_nil]
    obtain ⟨tl, htl⟩ := reverse_head_of_getLast? hfirst
    have ht := htext []
    simp only [List.append_nil, joinGroup] at ht
    rw [htl] at ht ⊢
    simp only [cmdOf, hic]
    rw [ht]
    simp [← hq, ← hi]
  | cons l ls ih =>
    constructor
    · simp only [goLines, groupsGo]
      by_cases hcm : (ic && l.isComment) = true
      · simp [hcm, cmdOf, ih.1]
      · have hcm' : (ic && l.isComment) = false := by simpa using hcm
        by_cases hc : l.isContinuation = true
        · simp only [hcm', hc, if_true, Bool.false_eq_true, if_false]
          apply ih.2 l []
          refine ⟨l, by simp, rfl, rfl, hcm', ?_⟩
          intro rest
          simp [joinGroup, hc]
        · simp only [hcm', hc, if_false, Bool.false_eq_true]
          simp only [List.map_cons, List.flatten_cons, cmdOf, hcm', joinGroup, hc, if_false, Bool.false_eq_true,
            Bool.not_true, List.append_nil]
          rw [ih.1]
    · intro c cur p ⟨first, hfirst, hq, hi, hic, htext⟩
      simp only [goLines, groupsGo]
      by_cases hc : l.isContinuation = true
      · simp only [hc, if_true]
        apply ih.2 l (c :: cur)
        refine ⟨first, ?_, hq, hi, hic, ?_⟩
        · rw [getLast?_cons_ne _ _ (by simp)]; exact hfirst
        · intro rest
          have := htext (l :: rest)
          have e : (l :: c :: cur).reverse ++ rest = (c :: cur).reverse ++ l :: rest := by simp
          rw [e, this]
          simp only [joinGroup, hc, if_true, Bool.not_false]
          rw [dropLast_append_ne _ _ (evalLine_continuation_ne l true hc)]
          simp [List.append_assoc]
      · simp only [hc, if_false, Bool.false_eq_true]
        simp only [List.map_cons, List.flatten_cons]
        have h' : (l :: c :: cur).getLast? = some first := by rw [getLast?_cons_ne _ _ (by simp)]; exact hfirst
        obtain ⟨tl, htl⟩ := reverse_head_of_getLast? h'
        have ht := htext [l]
        have e1 : (c :: cur).reverse ++ [l] = (l :: c :: cur).reverse := by simp
        rw [e1, htl] at ht
        rw [htl]
        simp only [cmdOf, hic]
        rw [ht]
        simp only [joinGroup, hc, if_false, Bool.not_false, List.append_nil, Bool.false_eq_true]
        rw [ih.1]
        simp [← hq, ← hi]

/-- **One process per non-empty logical line, in body order.**  For every body, the commands handed
to the shell are exactly the commands of its logical lines (continuation groups), in order: each
group contributes one command — its lines joined without the backslashes and the continuation
indentation, sigils removed — or none when that text is empty (or the group is a comment under
`set ignore-comments`). -/
theorem linewise_commands (ic : Bool) (body : List Line) :
    runLinewise ic body = ((groups ic body).map (cmdOf ic)).flatten :=
  (goLines_spec ic body).1

/-- every group yields at most one process -/
theorem at_most_one_process_per_line (ic : Bool) (g : List Line) : (cmdOf ic g).length ≤ 1 := by
  cases g with
  | nil => simp [cmdOf]
  | cons l ls =>
    simp only [cmdOf]
    split
    · simp
    · have : ∀ p : Pending, (emit p).length ≤ 1 := by
        intro p; unfold emit
        by_cases h : (List.drop ((if p.infallible = true then 1 else 0) + if p.quiet = true then 1 else 0) p.text).isEmpty = true
        · simp only [h, if_true]; simp
        · simp only [h]; simp
      exact this _

/-! ### script files: every body line on its justfile line number -/

/-- the `n`-th (zero-based) line of a text -/
def nthLine : List Char → Nat → List Char
  | [], _ => []
  | c :: cs, 0 => if c = '\n' then [] else c :: nthLine cs 0
  | c :: cs, n + 1 => if c = '\n' then nthLine cs n else nthLine cs (n + 1)

theorem nthLine_newlines (k m : Nat) (rest : List Char) : nthLine (newlines k ++ rest) (k + m) = nthLine rest m := by
  induction k with
  | zero => simp [newlines]
  | succ k ih =>
    have : newlines (k + 1) ++ rest = '\n' :: (newlines k ++ rest) := by simp [newlines, List.replicate_succ]
    rw [this, show k + 1 + m = (k + m) + 1 by omega]
    simp only [nthLine, if_true]
    exact ih

theorem nthLine_here (t rest : List Char) (h : '\n' ∉ t) : nthLine (t ++ '\n' :: rest) 0 = t := by
  induction t with
  | nil => simp [nthLine]
  | cons c cs ih =>
    have hc : c ≠ '\n' := fun e => h (by simp [e])
    have hcs : '\n' ∉ cs := fun e => h (by simp [e])
    simp [nthLine, hc, ih hcs]

theorem nthLine_next (t rest : List Char) (m : Nat) (h : '\n' ∉ t) : nthLine (t ++ '\n' :: rest) (m + 1) = nthLine rest m := by
  induction t with
  | nil => simp [nthLine]
  | cons c cs ih =>
    have hc : c ≠ '\n' := fun e => h (by simp [e])
    have hcs : '\n' ∉ cs := fun e => h (by simp [e])
    simp [nthLine, hc, ih hcs]

/-- body lines are written at the index given by their justfile line number -/
theorem scriptRest_lines (n : Nat) (ls : List Line)
    (hsorted : ls.Pairwise (fun a b => a.number < b.number))
    (hlow : ∀ l ∈ ls, n ≤ l.number)
    (hnl : ∀ l ∈ ls, '\n' ∉ evalLine l false) :
    ∀ l ∈ ls, nthLine (scriptRest n ls) (l.number - n) = evalLine l false := by
  induction ls generalizing n with
  | nil => intro l hl; cases hl
  | cons l0 rest ih =>
    intro l hl
    have h0 : n ≤ l0.number := hlow l0 (by simp)
    have hn0 : '\n' ∉ evalLine l0 false := hnl l0 (by simp)
    simp only [scriptRest]
    rw [List.pairwise_cons] at hsorted
    rcases List.mem_cons.mp hl with rfl | hl
    · have := nthLine_newlines (l.number - n) 0 (evalLine l false ++ ['\n'] ++ scriptRest (n + (l.number - n) + 1) rest)
      simp only [Nat.add_zero, List.append_assoc] at this ⊢
      rw [this]
      exact nthLine_here _ _ hn0
    · have hlt : l0.number < l.number := hsorted.1 l hl
      have e : l.number - n = (l0.number - n) + ((l.number - (l0.number + 1)) + 1) := by omega
      rw [e]
      simp only [List.append_assoc]
      rw [nthLine_newlines]
      have : evalLine l0 false ++ (['\n'] ++ scriptRest (n + (l0.number - n) + 1) rest)
          = evalLine l0 false ++ '\n' :: scriptRest (l0.number + 1) rest := by
        have : n + (l0.number - n) + 1 = l0.number + 1 := by omega
        rw [this]; rfl
      rw [this, nthLine_next _ _ _ hn0]
      exact ih (l0.number + 1) hsorted.2 (fun x hx => by have := hsorted.1 x hx; omega)
        (fun x hx => hnl x (by simp [hx])) l hl

/-- **`[script]` recipes**: every body line stands, evaluated, on the line of the script file that
has its justfile line number; the lines between are blank padding. -/
theorem script_line_numbers (body : List Line)
    (hsorted : body.Pairwise (fun a b => a.number < b.number))
    (hnl : ∀ l ∈ body, '\n' ∉ evalLine l false) :
    ∀ l ∈ body, nthLine (scriptText false true body) l.number = evalLine l false := by
  intro l hl
  have := scriptRest_lines 0 body hsorted (fun _ _ => Nat.zero_le _) hnl l hl
  simpa [scriptText] using this

theorem nthLine_skip (heads : List (List Char)) (rest : List Char) (m : Nat) (h : ∀ t ∈ heads, '\n' ∉ t) :
    nthLine ((heads.map (fun t => t ++ ['\n'])).flatten ++ rest) (heads.length + m) = nthLine rest m := by
  induction heads with
  | nil => simp
  | cons t ts ih =>
    have ht : '\n' ∉ t := h t (by simp)
    simp only [List.map_cons, List.flatten_cons, List.length_cons, List.append_assoc]
    rw [show ts.length + 1 + m = (ts.length + m) + 1 by omega]
    have : t ++ (['\n'] ++ ((ts.map (fun t => t ++ ['\n'])).flatten ++ rest))
        = t ++ '\n' :: ((ts.map (fun t => t ++ ['\n'])).flatten ++ rest) := rfl
    rw [this, nthLine_next _ _ _ ht]
    exact ih (fun x hx => h x (by simp [hx]))

/-- **Shebang recipes**: the `#!` lines come first; every line after them stands on its justfile
line number. -/
theorem shebang_line_numbers (body : List Line)
    (hsorted : (body.dropWhile Line.isShebang).Pairwise (fun a b => a.number < b.number))
    (hlow : ∀ l ∈ body.dropWhile Line.isShebang, (body.takeWhile Line.isShebang).length ≤ l.number)
    (hnl : ∀ l ∈ body, '\n' ∉ evalLine l false) :
    ∀ l ∈ body.dropWhile Line.isShebang, nthLine (scriptText true true body) l.number = evalLine l false := by
  intro l hl
  have hmem : ∀ x ∈ body.dropWhile Line.isShebang, x ∈ body := fun x hx => (List.dropWhile_sublist _).subset hx
  have hmemt : ∀ x ∈ body.takeWhile Line.isShebang, x ∈ body := fun x hx => (List.takeWhile_sublist _).subset hx
  have h1 := scriptRest_lines (body.takeWhile Line.isShebang).length _ hsorted hlow (fun x hx => hnl x (hmem x hx)) l hl
  have hk := hlow l hl
  simp only [scriptText, if_true]
  have e : ((body.takeWhile Line.isShebang).map (fun l => evalLine l false ++ ['\n'])).flatten
      = (((body.takeWhile Line.isShebang).map (fun l => evalLine l false)).map (fun t => t ++ ['\n'])).flatten := by
    rw [List.map_map]; rfl
  rw [e]
  have := nthLine_skip ((body.takeWhile Line.isShebang).map (fun l => evalLine l false))
    (scriptRest (body.takeWhile Line.isShebang).length (body.dropWhile Line.isShebang))
    (l.number - (body.takeWhile Line.isShebang).length)
    (by
      intro t ht
      obtain ⟨x, hx, rfl⟩ := List.mem_map.mp ht
      exact hnl x (hmemt x hx))
  simp only [List.length_map] at this
  rw [show (body.takeWhile Line.isShebang).length + (l.number - (body.takeWhile Line.isShebang).length) = l.number by omega] at this
  rw [this]
  exact h1

/-! ### which shell, which interpreter -/

theorem shell_flag_and_args (s : String) (a : List String) (set : Option Interp) : shell (some s) (some a) set = ⟨s, a⟩ := rfl
theorem shell_flag_only (s : String) (set : Option Interp) : shell (some s) none set = ⟨s, ["-cu"]⟩ := rfl
theorem shell_args_only (a : List String) (set : Option Interp) : shell none (some a) set = ⟨"sh", a⟩ := rfl
theorem shell_setting (i : Interp) : shell none none (some i) = i := rfl
theorem shell_default : shell none none none = ⟨"sh", ["-cu"]⟩ := rfl

/-- as soon as `--shell` or `--shell-arg` is given, `set shell` plays no role -/
theorem command_line_overrides_setting (cs : Option String) (ca : Option (List String)) (set set' : Option Interp)
    (h : cs.isSome ∨ ca.isSome) : shell cs ca set = shell cs ca set' := by
  cases cs <;> cases ca <;> simp_all [shell]

/-- a `[script(cmd …)]` recipe runs `cmd`; a bare `[script]` runs `script-interpreter`, else `sh -eu` -/
theorem script_own_command_first (i : Interp) (setting : Option Interp) : scriptInterpreter (some i) setting = i := rfl
theorem script_setting_second (i : Interp) : scriptInterpreter none (some i) = i := rfl
theorem script_default : scriptInterpreter none none = ⟨"sh", ["-eu"]⟩ := rfl

/-- shebang and `[script]` recipes never go through the shell: whatever `--shell`, `--shell-arg` and
`set shell` say, what is executed is the same -/
theorem scripts_ignore_shell (r : Recipe) (ic : Bool) (cs cs' : Option String) (ca ca' : Option (List String))
    (set set' si : Option Interp) (h : r.scriptAttr.isSome ∨ r.isShebang = true) :
    execute r ic cs ca set si = execute r ic cs' ca' set' si := by
  unfold execute
  cases hs : r.scriptAttr with
  | some a => rfl
  | none =>
    rcases h with h | h
    · simp [hs] at h
    · simp [h]

/-- a linewise recipe runs its lines with the selected shell, one command per logical line -/
theorem linewise_uses_shell (r : Recipe) (ic : Bool) (cs : Option String) (ca : Option (List String))
    (set si : Option Interp) (h1 : r.scriptAttr = none) (h2 : r.isShebang = false) :
    execute r ic cs ca set si = .shellLines (shell cs ca set) (((groups ic r.body).map (cmdOf ic)).flatten) := by
  simp [execute, h1, h2, linewise_commands]

/-- non-vacuity: a body with a sigil, an escape, an interpolation and a continuation -/
example :
    runLinewise false
      [⟨[.text "@echo {{{{a}} ".toList, .interp " v ".toList, .text " \\".toList], 3⟩,
       ⟨[.text "    ".toList, .interp "  w".toList], 4⟩,
       ⟨[], 5⟩,
       ⟨[.text "-false".toList], 6⟩]
    = [⟨"echo {{a}}  v    w".toList, true, false⟩, ⟨"false".toList, false, true⟩] := by
  decide

end Just.C06
