/-
C16 — justfile discovery picks the nearest justfile; fallback climbs as documented.
-/
import Just.Model.Search
import Just.Lemmas.SearchSame
namespace Just.Props.C16
open Just.Search

def candidates (d : Level) : List String := d.entries.filter isCandidate

/-- **nearest wins**: if the search settles on directory `l`, every nearer directory has no
candidate and `l` has exactly that one — for ancestor chains of any depth -/
theorem nearest_wins (ds : List Level) (i l : Nat) (n : String) (h : search ds i = .at l n) :
    i ≤ l ∧ (∀ j, j < l - i → ∀ d, ds[j]? = some d → candidates d = []) ∧
      (∃ d, ds[l - i]? = some d ∧ candidates d = [n]) := by
  induction ds generalizing i with
  | nil => simp [search] at h
  | cons d ds ih =>
    simp only [search] at h
    split at h
    · rename_i hc
      obtain ⟨h1, h2, h3⟩ := ih (i + 1) h
      refine ⟨by omega, ?_, ?_⟩
      · intro j hj d' hd'
        cases j with
        | zero => simp at hd'; subst hd'; exact hc
        | succ j => simp at hd'; exact h2 j (by omega) d' hd'
      · obtain ⟨d', hd', hcd⟩ := h3
        have : l - i = (l - (i + 1)) + 1 := by omega
        exact ⟨d', by rw [this]; simpa using hd', hcd⟩
    · rename_i n' hc
      cases h
      exact ⟨Nat.le_refl _, fun j hj => by omega, d, by simp, hc⟩
    · cases h

/-- **more than one candidate in the nearest directory that has any is an error** -/
theorem ambiguous_is_error (ds : List Level) (i l : Nat) (h : search ds i = .multiple l) :
    i ≤ l ∧ (∀ j, j < l - i → ∀ d, ds[j]? = some d → candidates d = []) ∧
      (∃ d, ds[l - i]? = some d ∧ 2 ≤ (candidates d).length) := by
  induction ds generalizing i with
  | nil => simp [search] at h
  | cons d ds ih =>
    simp only [search] at h
    split at h
    · rename_i hc
      obtain ⟨h1, h2, h3⟩ := ih (i + 1) h
      refine ⟨by omega, ?_, ?_⟩
      · intro j hj d' hd'
        cases j with
        | zero => simp at hd'; subst hd'; exact hc
        | succ j => simp at hd'; exact h2 j (by omega) d' hd'
      · obtain ⟨d', hd', hcd⟩ := h3
        have : l - i = (l - (i + 1)) + 1 := by omega
        exact ⟨d', by rw [this]; simpa using hd', hcd⟩
    · cases h
    · rename_i hn1 hn2
      cases h
      refine ⟨Nat.le_refl _, fun j hj => by omega, d, by simp, ?_⟩
      unfold candidates
      match hm : d.entries.filter isCandidate with
      | [] => exact absurd hm hn1
      | [x] => exact absurd hm (hn2 x)
      | _ :: _ :: _ => simp

/-- **no candidate in any ancestor is an error**, and only then -/
theorem none_is_error (ds : List Level) (i : Nat) :
    search ds i = .notFound ↔ ∀ d ∈ ds, candidates d = [] := by
  induction ds generalizing i with
  | nil => simp [search]
  | cons d ds ih =>
    simp only [search]
    constructor
    · intro h
      split at h
      · rename_i hc
        intro d' hd'
        rcases List.mem_cons.mp hd' with hd' | hd'
        · subst hd'; exact hc
        · exact (ih (i + 1)).mp h d' hd'
      · cases h
      · cases h
    · intro h
      have hd := h d (List.mem_cons_self ..)
      unfold candidates at hd
      rw [hd]
      exact (ih (i + 1)).mpr (fun d' hd' => h d' (List.mem_cons_of_mem _ hd'))

/-- letter case does not matter, the leading dot variant counts -/
example : isCandidate "JUSTFILE" = true ∧ isCandidate ".Justfile" = true ∧ isCandidate "justfile.bak" = false := by
  decide

/-! ### fallback -/

/-- what a fallback climb can end in: it ran somewhere, or some level reported the unknown recipe -/
theorem climb_outcomes (searching : Bool) : ∀ (fuel : Nat) (ds : List Level) (level : Nat) (name : String),
    ds ≠ [] → (∃ l n, climb searching fuel ds level name = .ran l n ∧ level ≤ l) ∨
      (∃ l, climb searching fuel ds level name = .unknownRecipe l ∧ level ≤ l) ∨
      climb searching fuel ds level name = .fuel ∨ climb searching fuel ds level name = .notFound := by
  intro fuel
  induction fuel with
  | zero => intro ds level name _; right; right; left; simp [climb]
  | succ n ih =>
    intro ds level name hne
    cases ds with
    | nil => exact absurd rfl hne
    | cons d above =>
      simp only [climb]
      split
      · left; exact ⟨level, name, rfl, Nat.le_refl _⟩
      · split
        · split
          · rename_i l n' hs
            have hl := (nearest_wins above (level + 1) l n' hs).1
            by_cases hne' : above.drop (l - (level + 1)) = []
            · rw [hne']
              cases n with
              | zero => right; right; left; simp [climb]
              | succ m => right; right; right; simp [climb]
            · rcases ih (above.drop (l - (level + 1))) l n' hne' with ⟨l', n'', h1, h2⟩ | ⟨l', h1, h2⟩ | h | h
              · left; exact ⟨l', n'', h1, by omega⟩
              · right; left; exact ⟨l', h1, by omega⟩
              · right; right; left; exact h
              · right; right; right; exact h
          · right; left; exact ⟨level, rfl, Nat.le_refl _⟩
        · right; left; exact ⟨level, rfl, Nat.le_refl _⟩

/-- **the first level decides when it knows the recipe or has no fallback** -/
theorem no_fallback_stops (searching : Bool) (fuel : Nat) (d : Level) (above : List Level) (level : Nat)
    (name : String) (hk : d.knows = false) (hf : d.fallback = false) :
    climb searching (fuel + 1) (d :: above) level name = .unknownRecipe level := by
  simp [climb, hk, hf]

theorem known_runs_here (searching : Bool) (fuel : Nat) (d : Level) (above : List Level) (level : Nat)
    (name : String) (hk : d.knows = true) :
    climb searching (fuel + 1) (d :: above) level name = .ran level name := by
  simp [climb, hk]

/-- **fallback climbs exactly one justfile at a time**: with `set fallback` and an unknown recipe
the outcome is that of the next justfile found above, or this level's error if there is none -/
theorem fallback_step (fuel : Nat) (d : Level) (above : List Level) (level : Nat) (name : String)
    (hk : d.knows = false) (hf : d.fallback = true) :
    climb true (fuel + 1) (d :: above) level name =
      match search above (level + 1) with
      | .at l n => climb true fuel (above.drop (l - (level + 1))) l n
      | _ => .unknownRecipe level := by
  simp only [climb, hk, hf, Bool.false_eq_true, if_false, Bool.and_self, if_true]
  cases search above (level + 1) <;> rfl

/-- **explicit `--justfile` disables both search and fallback** -/
theorem explicit_justfile_disables_both (d : Level) :
    runExplicit d = if d.knows then .ran 0 "explicit" else .unknownRecipe 0 := by
  unfold runExplicit
  cases hk : d.knows <;> simp [climb, hk]

/-- non-vacuity: two levels of fallback reach the grandparent -/
example :
    run [⟨["justfile"], false, true⟩, ⟨["src"], false, false⟩, ⟨[".justfile", "x"], false, true⟩,
         ⟨["Justfile"], true, false⟩] = .ran 3 "Justfile" := by
  decide

/-- **the candidate names are the documented ones**: `JUSTFILE_NAMES`, read from src/search.rs on
every run, is `justfile` and `.justfile` and nothing else; a file is a candidate exactly when its
name is one of the two in some letter case -/
theorem candidate_names_are_documented :
    Generated.justfileNames = ["justfile", ".justfile"] ∧
    isCandidate "jUSTfile" = true ∧ isCandidate ".JustFile" = true ∧
    isCandidate "justfile.just" = false ∧ isCandidate "Justfile " = false := by
  decide

/-! ### nothing but candidate names matters -/
section Markers
open Just.Search

/-- **only candidate names matter to discovery and fallback**: directories that differ in other entries (`.git`, `Cargo.toml`,
sub-directories, anything that is not named like a justfile) give the same outcome -/
theorem run_same (ds es : List Level) (h : sameCand ds es) : run ds = run es := by
  unfold run
  rw [search_same ds es 0 h, sameCand_length ds es h]
  split
  · rfl
  · rfl
  · rename_i l n _
    exact climb_same true _ _ _ l n (sameCand_drop l ds es h)


def withExtras (extra : List String) (ds : List Level) : List Level :=
  ds.map (fun d => { d with entries := d.entries ++ extra })

theorem sameCand_withExtras (extra : List String) (h : ∀ e ∈ extra, isCandidate e = false) :
    ∀ ds : List Level, sameCand (withExtras extra ds) ds
  | [] => by simp [withExtras, sameCand]
  | d :: ds => by
    have hf : extra.filter isCandidate = [] := List.filter_eq_nil_iff.mpr (by intro e he; simp [h e he])
    refine ⟨⟨?_, rfl, rfl⟩, sameCand_withExtras extra h ds⟩
    simp [List.filter_append, hf]

/-- version-control and project markers in every directory of the chain change nothing -/
theorem markers_change_nothing (ds : List Level) :
    run (withExtras [".git", ".hg", ".svn", "_darcs", ".bzr", "Cargo.toml", "package.json"] ds) = run ds :=
  run_same _ _ (sameCand_withExtras _ (by decide) ds)


end Markers

end Just.Props.C16
