/-
C02 — fail-stop: a failing command halts the run with its exit status.

Theorems about `Just.Run` (model of `run_recipe`, `run_linewise`, `run_script`, `Error::code`):
whenever a run ends with an error, the event list *ends* with the command whose status is that
error (nothing is started afterwards: no later line, dependent, subsequent or later command-line
recipe), or with the unanswered confirmation prompt; the exit code is the command's status
(128+n for a signal); `-` lines never stop the run; an unconfirmed recipe runs nothing.
-/
import Just.Lemmas.RunSpec
namespace Just.Props.C02
open Just.Run

/-- the command text of an executing event -/
def cmdOf : Ev → Option String
  | .bt c => some c
  | .spawn _ _ c => some c
  | .script _ _ t => some t
  | _ => none

/-- `es` ends with a command whose status is the error `e` -/
def EndsFailed (env : Env) (es : List Ev) (e : Err) : Prop :=
  ∃ pre ev c, es = pre ++ [ev] ∧ cmdOf ev = some c ∧ (env.status c).toErr = some e

/-- how a run that ended with error `e` stopped -/
def StopsAt (env : Env) (es : List Ev) : Err → Prop
  | .code n => EndsFailed env es (.code n)
  | .signal n => EndsFailed env es (.signal n)
  | .notConfirmed => ∃ pre ri, es = pre ++ [Ev.prompt ri]
  | .fuel => True
  | .internal => True

theorem EndsFailed.prepend {env : Env} {es : List Ev} {e : Err} (p : List Ev)
    (h : EndsFailed env es e) : EndsFailed env (p ++ es) e := by
  obtain ⟨pre, ev, c, hes, hc, hs⟩ := h
  exact ⟨p ++ pre, ev, c, by rw [hes, List.append_assoc], hc, hs⟩

theorem StopsAt.prepend {env : Env} {es : List Ev} {e : Err} (p : List Ev)
    (h : StopsAt env es e) : StopsAt env (p ++ es) e := by
  cases e with
  | code n => exact EndsFailed.prepend p h
  | signal n => exact EndsFailed.prepend p h
  | notConfirmed =>
    obtain ⟨pre, ri, hes⟩ := h
    exact ⟨p ++ pre, ri, by rw [hes, List.append_assoc]⟩
  | fuel => trivial
  | internal => trivial

theorem stopsAt_last {env : Env} {ev : Ev} {c : String} {e : Err} (pre : List Ev)
    (hc : cmdOf ev = some c) (hs : (env.status c).toErr = some e) : StopsAt env (pre ++ [ev]) e := by
  cases hst : env.status c with
  | ok => rw [hst] at hs; cases hs
  | code n =>
    rw [hst] at hs; simp [Status.toErr] at hs; subst hs
    exact ⟨pre, ev, c, rfl, hc, by rw [hst]; rfl⟩
  | signal n =>
    rw [hst] at hs; simp [Status.toErr] at hs; subst hs
    exact ⟨pre, ev, c, rfl, hc, by rw [hst]; rfl⟩

/-- **exit status**: `Error::code` of a failed command is its status, 128+n for a signal. -/
theorem exit_code_table (s : Status) (e : Err) (h : s.toErr = some e) :
    e.exit = match s with
      | .ok => 0
      | .code n => n
      | .signal n => 128 + n := by
  cases s <;> simp [Status.toErr] at h <;> (subst h; rfl)

theorem exit_not_confirmed : Err.notConfirmed.exit = 1 := rfl

/-! ### leaf functions stop at the failing command -/

theorem evalA_stops (cfg : Cfg) (env : Env) (ps : Args) (a : AExpr) :
    ∀ es e, evalA cfg env ps a = (es, .error e) → StopsAt env es e := by
  induction a with
  | lit s => intro es e h; simp [evalA] at h
  | param i =>
    intro es e h
    simp only [evalA] at h
    split at h <;> cases h
    trivial
  | cat a b iha ihb =>
    intro es e h
    simp only [evalA] at h
    split at h
    · rename_i e1 e' heq; cases h; exact iha _ _ heq
    · rename_i e1 x heq
      split at h
      · rename_i e2 e' heq2; cases h; exact (ihb _ _ heq2).prepend e1
      · cases h
  | bt c =>
    intro es e h
    simp only [evalA] at h
    split at h
    · cases h
    · split at h
      · cases h
      · rename_i e' he
        cases h
        exact stopsAt_last [] rfl he

theorem evalList_stops (cfg : Cfg) (env : Env) (ps : Args) (as : List AExpr) :
    ∀ es e, evalList cfg env ps as = (es, .error e) → StopsAt env es e := by
  induction as with
  | nil => intro es e h; simp [evalList] at h
  | cons a as ih =>
    intro es e h
    simp only [evalList] at h
    split at h
    · rename_i e1 e' heq; cases h; exact evalA_stops cfg env ps a _ _ heq
    · rename_i e1 x heq
      split at h
      · rename_i e2 e' heq2; cases h; exact (ih _ _ heq2).prepend e1
      · cases h

theorem bindParams_stops (cfg : Cfg) (env : Env) (ps : List (Option AExpr)) :
    ∀ ws bound es e, bindParams cfg env ps ws bound = (es, .error e) → StopsAt env es e := by
  induction ps with
  | nil => intro ws bound es e h; simp [bindParams] at h
  | cons p ps ih =>
    intro ws bound es e h
    cases ws with
    | cons w ws => simp only [bindParams] at h; exact ih _ _ _ _ h
    | nil =>
      cases p with
      | none => simp only [bindParams] at h; cases h; trivial
      | some d =>
        simp only [bindParams] at h
        split at h
        · rename_i e1 e' heq; cases h; exact evalA_stops cfg env bound d _ _ heq
        · rename_i e1 v heq
          cases hb : bindParams cfg env ps [] (bound ++ [v]) with
          | mk e2 r =>
            rw [hb] at h
            cases h
            exact (ih _ _ _ _ hb).prepend e1

theorem runCmd_stops (cfg : Cfg) (env : Env) (ri : Nat) (r : Recipe) (given : Args) (l : Line)
    (cmd : String) : ∀ es e, runCmd cfg env ri r given l cmd = (es, .error e) → StopsAt env es e := by
  intro es e h
  unfold runCmd at h
  simp only at h
  split at h
  · cases h
  · split at h
    · cases h
    · rename_i e' he
      cases hl : l.infallible
      · rw [hl] at h
        cases h
        exact stopsAt_last _ rfl he
      · rw [hl] at h; cases h

theorem runLines_stops (cfg : Cfg) (env : Env) (ri : Nat) (r : Recipe) (given ps : Args)
    (ls : List Line) : ∀ es e, runLines cfg env ri r given ps ls = (es, .error e) → StopsAt env es e := by
  induction ls with
  | nil => intro es e h; simp [runLines] at h
  | cons l ls ih =>
    intro es e h
    simp only [runLines] at h
    split at h
    · rename_i e1 e' heq; cases h; exact evalList_stops cfg env ps _ _ _ heq
    · rename_i e1 parts heq
      split at h
      · cases hb : runLines cfg env ri r given ps ls with
        | mk e3 res => rw [hb] at h; cases h; exact (ih _ _ hb).prepend e1
      · split at h
        · rename_i e2 e' heq2
          cases h
          exact (runCmd_stops cfg env ri r given l _ _ _ heq2).prepend e1
        · rename_i e2 heq2
          cases hb : runLines cfg env ri r given ps ls with
          | mk e3 res =>
            rw [hb] at h; cases h
            rw [List.append_assoc]
            exact ((ih _ _ hb).prepend e2).prepend e1

theorem evalLines_stops (cfg : Cfg) (env : Env) (ps : Args) (ls : List Line) :
    ∀ es e, evalLines cfg env ps ls = (es, .error e) → StopsAt env es e := by
  induction ls with
  | nil => intro es e h; simp [evalLines] at h
  | cons l ls ih =>
    intro es e h
    simp only [evalLines] at h
    split at h
    · rename_i e1 e' heq; cases h; exact evalList_stops cfg env ps _ _ _ heq
    · rename_i e1 x heq
      split at h
      · rename_i e2 e' heq2; cases h; exact (ih _ _ heq2).prepend e1
      · cases h

theorem runBody_stops (cfg : Cfg) (env : Env) (ri : Nat) (r : Recipe) (given ps : Args) :
    ∀ es e, runBody cfg env ri r given ps = (es, .error e) → StopsAt env es e := by
  intro es e h
  unfold runBody at h
  split at h
  · unfold runScript at h
    split at h
    · rename_i e1 e' heq; cases h; exact evalLines_stops cfg env ps _ _ _ heq
    · rename_i e1 lines heq
      simp only at h
      split at h
      · cases h
      · split at h
        · cases h
        · rename_i e' he
          cases h
          exact stopsAt_last _ rfl he
  · exact runLines_stops cfg env ri r given ps r.body _ _ h

/-! ### the whole run stops at the failing command -/

theorem failstop_all {P : Prog} {cfg : Cfg} {env : Env}
    {c : Call} {es : List Ev} {res : Except Err Ran} (h : Runs P cfg env c es res) :
    ∀ e, res = .error e → StopsAt env es e := by
  induction h with
  | memo _ => intro e h; cases h
  | outOfFuel => intro e h; cases h; trivial
  | noRecipe _ _ => intro e h; cases h; trivial
  | @notConfirmed fuel sub ri given ran k r _ _ _ _ => intro e h; cases h; exact ⟨[], ri, rfl⟩
  | @bindFail fuel sub ri given ran k r e1 e' _ _ _ hb =>
    intro e h; cases h
    exact (bindParams_stops cfg env _ _ _ _ _ hb).prepend _
  | @priorsFail fuel sub ri given ran k r e1 ps e2 e' _ _ _ _ _ ih =>
    intro e h; cases h
    exact (ih _ rfl).prepend _
  | @bodyFail fuel sub ri given ran k r e1 ps e2 ran1 e3 e' _ _ _ _ _ hbody _ =>
    intro e h; cases h
    exact (runBody_stops cfg env ri r given ps _ _ hbody).prepend _
  | @subsFail fuel sub ri given ran k r e1 ps e2 ran1 e3 e4 e' _ _ _ _ _ _ _ _ ih4 =>
    intro e h; cases h
    exact (ih4 _ rfl).prepend _
  | done _ _ _ _ _ _ _ _ _ => intro e h; cases h
  | depsNil => intro e h; cases h
  | depsSkip _ => intro e h; cases h
  | @depsEvalFail fuel sub d ds ps ran k e1 e' _ he =>
    intro e h; cases h
    exact evalList_stops cfg env ps _ _ _ he
  | @depsRecFail fuel sub d ds ps ran k e1 given e2 e' _ _ _ ih =>
    intro e h; cases h
    exact (ih _ rfl).prepend _
  | @depsCons fuel sub d ds ps ran k e1 given e2 ran1 e3 res _ _ _ _ _ ih3 =>
    intro e h
    exact (ih3 e h).prepend _

/-- **fail-stop for one invocation**: if running a recipe (with all its dependencies and
subsequents) ends with error `e`, the events end with the command whose status is `e` — nothing at
all is started after it — or, for "not confirmed", with the declined prompt. -/
theorem failstop (P : Prog) (cfg : Cfg) (env : Env) (fuel : Nat) (sub : Bool) (ri : Nat)
    (given : Args) (ran : Ran) (k : Nat) (es : List Ev) (e : Err)
    (h : runRecipe P cfg env fuel sub ri given ran k = (es, .error e)) : StopsAt env es e :=
  failstop_all (runRecipe_sound P cfg env fuel sub ri given ran k es _ h) e rfl

theorem runAssigns_stops (cfg : Cfg) (env : Env) (cs : List String) :
    ∀ es e, runAssigns cfg env cs = (es, .error e) → StopsAt env es e := by
  induction cs with
  | nil => intro es e h; simp [runAssigns] at h
  | cons c cs ih =>
    intro es e h
    simp only [runAssigns] at h
    split at h
    · rename_i e1 e' heq; cases h; exact evalA_stops cfg env [] _ _ _ heq
    · rename_i e1 v heq
      cases hb : runAssigns cfg env cs with
      | mk e2 res => rw [hb] at h; cases h; exact (ih _ _ hb).prepend e1

theorem runInvs_stops (P : Prog) (cfg : Cfg) (env : Env) (fuel : Nat) (invs : List Key) :
    ∀ ran k es e, runInvs P cfg env fuel invs ran k = (es, .error e) → StopsAt env es e := by
  induction invs with
  | nil => intro ran k es e h; simp [runInvs] at h
  | cons inv invs ih =>
    intro ran k es e h
    obtain ⟨ri, given⟩ := inv
    simp only [runInvs] at h
    split at h
    · rename_i e1 e' heq; cases h; exact failstop P cfg env fuel false ri given ran k _ _ heq
    · rename_i e1 ran1 heq
      cases hb : runInvs P cfg env fuel invs ran1 (k + countPrompts e1) with
      | mk e2 res => rw [hb] at h; cases h; exact (ih _ _ _ _ hb).prepend e1

/-- **fail-stop for the whole command line**: `just` either exits 0, or exits with `e.exit` where
the run's events end at the failing command / declined prompt for `e`: no later line, dependent
recipe, subsequent dependency or later command-line recipe starts. -/
theorem main_failstop (P : Prog) (cfg : Cfg) (env : Env) (invs : List Key) :
    (runMain P cfg env invs).2 = 0 ∨
      ∃ e, (runMain P cfg env invs).2 = e.exit ∧ StopsAt env (runMain P cfg env invs).1 e := by
  unfold runMain
  split
  · rename_i e1 e heq
    exact Or.inr ⟨e, rfl, runAssigns_stops cfg env _ _ _ heq⟩
  · rename_i e1 heq
    split
    · rename_i e2 e heq2
      exact Or.inr ⟨e, rfl, (runInvs_stops P cfg env _ invs _ _ _ _ heq2).prepend e1⟩
    · exact Or.inl rfl

/-- **`-` lines never stop the run**, whatever status (exit code or signal) the command returns. -/
theorem infallible_never_stops (cfg : Cfg) (env : Env) (ri : Nat) (r : Recipe) (given : Args)
    (l : Line) (cmd : String) (h : l.infallible = true) :
    (runCmd cfg env ri r given l cmd).2 = .ok () := by
  unfold runCmd
  simp only
  split
  · rfl
  · split
    · rfl
    · simp

/-- a failing command on a line without `-` stops the recipe with that status -/
theorem fallible_stops (cfg : Cfg) (env : Env) (ri : Nat) (r : Recipe) (given : Args)
    (l : Line) (cmd : String) (e : Err) (hd : cfg.dryRun = false) (h : l.infallible = false)
    (hs : (env.status cmd).toErr = some e) :
    (runCmd cfg env ri r given l cmd).2 = .error e := by
  unfold runCmd
  simp [hd, hs, h]

/-- **an unconfirmed `[confirm]` recipe runs nothing**: only the prompt happens — no parameter
backtick, no dependency, no line — and the run fails with "not confirmed" (exit 1). -/
theorem unconfirmed_runs_nothing (P : Prog) (cfg : Cfg) (env : Env) (fuel : Nat) (sub : Bool)
    (ri : Nat) (r : Recipe) (given : Args) (ran : Ran) (k : Nat)
    (hr : P.recipes[ri]? = some r) (hnew : (ri, given) ∉ ran) (hc : r.confirm = true)
    (hy : cfg.yes = false) (hans : env.ans k = false) :
    runRecipe P cfg env (fuel + 1) sub ri given ran k = ([Ev.prompt ri], .error .notConfirmed) := by
  rw [runRecipe]
  simp [hnew, hr, hc, hy, hans]

/-- with `--yes` nobody is asked -/
theorem yes_never_prompts (cfg : Cfg) (r : Recipe) (ri : Nat) (hy : cfg.yes = true) :
    promptOf cfg r ri = [] := by
  unfold promptOf; simp [hy]

/-- non-vacuity: a two-line recipe whose first line fails with status 3 -/
example :
    runLines {} ⟨fun c => if c = "a" then .code 3 else .ok, fun _ => "", fun _ => true⟩ 0
        { params := [], priors := [], subs := [], body := [] } [] []
        [⟨false, false, [.lit "a"]⟩, ⟨false, false, [.lit "b"]⟩]
      = ([.echo "a", .spawn 0 [] "a"], .error (.code 3)) := by
  simp [runLines, evalList, evalA, runCmd, echoes, concat, Cfg.loquacious, Status.toErr]

/-- **only `y` and `yes` confirm**: an answer is accepted exactly when, blanks around it removed and
letter case ignored, it is `y` or `yes` — so `ye`, `yess`, `yes please`, `y/n`, the empty line and
everything else decline, and a declined recipe runs nothing (`unconfirmed_runs_nothing`) -/
theorem confirm_accepts_iff (line : String) :
    confirmAccepts line = true ↔
      (trimBlanks line.toList).map Char.toLower = ['y'] ∨ (trimBlanks line.toList).map Char.toLower = ['y', 'e', 's'] := by
  simp [confirmAccepts]

example : confirmAccepts " Yes\t" = true ∧ confirmAccepts "Y" = true ∧ confirmAccepts "ye" = false ∧
    confirmAccepts "yes please" = false ∧ confirmAccepts "" = false ∧ confirmAccepts "y/n" = false := by decide

end Just.Props.C02
