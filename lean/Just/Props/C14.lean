/-
C14 — echoing, quieting and dry-run follow the documented truth table.
Theorems about `Just.Run` (model of src/recipe.rs run_linewise / run_script).
-/
import Just.Model.Run
import Just.Lemmas.RunSpec
import Just.Lemmas.RunQuiet
import Just.Lemmas.RunDry
import Just.Lemmas.EvalDry
namespace Just.Props.C14
open Just.Run

/-- The documented rule: a line is echoed iff `--dry-run` or `--verbose` (without `--quiet`)
is given, or none of the quieting mechanisms applies: `--quiet`, `set quiet` (unless the recipe is
`[no-quiet]`), exactly one of the line's `@` and the recipe's `@`. -/
def specEchoes (dry verbose quietFlag setQuiet noQuiet recipeAt lineAt : Bool) : Bool :=
  if dry then true
  else if quietFlag then false
  else if verbose then true
  else if setQuiet && !noQuiet then false
  else lineAt == recipeAt

/-- The echo decision of the model equals the documented truth table on every combination of
line prefix, recipe prefix, `set quiet`, `[no-quiet]`, `--quiet`, `--verbose`, `--dry-run`. -/
theorem echo_table_eq_spec (cfg : Cfg) (r : Recipe) (l : Line) :
    echoes cfg r l =
      specEchoes cfg.dryRun cfg.verbose (cfg.quiet && !cfg.dryRun) cfg.setQuiet r.noQuiet r.quiet l.quiet := by
  unfold echoes specEchoes Cfg.loquacious
  cases cfg.dryRun <;> cases cfg.verbose <;> cases cfg.quiet <;> cases cfg.setQuiet <;>
    cases r.noQuiet <;> cases r.quiet <;> cases l.quiet <;> rfl

/-- The `-` prefix never influences echoing. -/
theorem echo_ignores_infallible (cfg : Cfg) (r : Recipe) (l : Line) (b : Bool) :
    echoes cfg r { l with infallible := b } = echoes cfg r l := rfl

/-- The echoed text is the command the shell receives: a real run emits, for one logical line,
exactly `[echo cmd]?` followed by `spawn cmd`. -/
theorem echo_is_command (cfg : Cfg) (env : Env) (ri : Nat) (r : Recipe) (given : Args) (l : Line)
    (cmd : String) (h : cfg.dryRun = false) :
    (runCmd cfg env ri r given l cmd).1 =
      (if echoes cfg r l then [Ev.echo cmd] else []) ++ [Ev.spawn ri given cmd] := by
  unfold runCmd
  simp only [h]
  cases (env.status cmd).toErr <;> simp

/-- Under `--dry-run` a logical line is printed and nothing is spawned. -/
theorem dry_run_line (cfg : Cfg) (env : Env) (ri : Nat) (r : Recipe) (given : Args) (l : Line)
    (cmd : String) (h : cfg.dryRun = true) :
    runCmd cfg env ri r given l cmd = ([Ev.echo cmd], .ok ()) := by
  unfold runCmd echoes
  simp [h]

/-! ### dry-run executes nothing -/

def isExec : Ev → Bool
  | .bt _ => true
  | .spawn _ _ _ => true
  | .script _ _ _ => true
  | _ => false

def execs (es : List Ev) : List Ev := es.filter isExec

@[simp] theorem execs_nil : execs [] = [] := rfl
@[simp] theorem execs_body (r : Nat) (a : Args) (b : Bool) : execs [Ev.body r a b] = [] := rfl
@[simp] theorem execs_prompt (r : Nat) : execs [Ev.prompt r] = [] := rfl
@[simp] theorem execs_cons_body (r : Nat) (a : Args) (b : Bool) (es : List Ev) :
    execs (Ev.body r a b :: es) = execs es := rfl
@[simp] theorem execs_append (a b : List Ev) : execs (a ++ b) = execs a ++ execs b := by
  simp [execs]

theorem evalA_dry (cfg : Cfg) (env : Env) (ps : Args) (h : cfg.dryRun = true) (a : AExpr) :
    execs (evalA cfg env ps a).1 = [] := by
  induction a with
  | lit s => simp [evalA]
  | param i => simp only [evalA]; split <;> simp
  | cat a b iha ihb =>
    simp only [evalA]
    split
    · rename_i e1 e heq; rw [heq] at iha; simpa using iha
    · rename_i e1 x heq
      rw [heq] at iha
      split
      · rename_i e2 e heq2; rw [heq2] at ihb; simp_all
      · rename_i e2 y heq2; rw [heq2] at ihb; simp_all
  | bt c => simp [evalA, h]

theorem evalList_dry (cfg : Cfg) (env : Env) (ps : Args) (h : cfg.dryRun = true) (as : List AExpr) :
    execs (evalList cfg env ps as).1 = [] := by
  induction as with
  | nil => simp [evalList]
  | cons a as ih =>
    simp only [evalList]
    have ha := evalA_dry cfg env ps h a
    split
    · rename_i e1 e heq; rw [heq] at ha; simpa using ha
    · rename_i e1 x heq
      rw [heq] at ha
      split
      · rename_i e2 e heq2; rw [heq2] at ih; simp_all
      · rename_i e2 y heq2; rw [heq2] at ih; simp_all

theorem bindParams_dry (cfg : Cfg) (env : Env) (h : cfg.dryRun = true) (ps : List (Option AExpr))
    (ws bound : Args) : execs (bindParams cfg env ps ws bound).1 = [] := by
  induction ps generalizing ws bound with
  | nil => simp [bindParams]
  | cons p ps ih =>
    cases ws with
    | cons w ws => simp only [bindParams]; exact ih ws _
    | nil =>
      cases p with
      | none => simp [bindParams]
      | some d =>
        simp only [bindParams]
        have ha := evalA_dry cfg env bound h d
        split
        · rename_i e1 e heq; rw [heq] at ha; simpa using ha
        · rename_i e1 v heq
          rw [heq] at ha
          have := ih [] (bound ++ [v])
          simp_all

theorem runLines_dry (cfg : Cfg) (env : Env) (ri : Nat) (r : Recipe) (given ps : Args)
    (h : cfg.dryRun = true) (ls : List Line) :
    execs (runLines cfg env ri r given ps ls).1 = [] := by
  induction ls with
  | nil => simp [runLines]
  | cons l ls ih =>
    simp only [runLines]
    have ha := evalList_dry cfg env ps h l.frags
    split
    · rename_i e1 e heq; rw [heq] at ha; simpa using ha
    · rename_i e1 parts heq
      rw [heq] at ha
      split
      · simp_all
      · rw [dry_run_line cfg env ri r given l _ h]
        simp_all [execs, isExec]

theorem evalLines_dry (cfg : Cfg) (env : Env) (ps : Args) (h : cfg.dryRun = true) (ls : List Line) :
    execs (evalLines cfg env ps ls).1 = [] := by
  induction ls with
  | nil => simp [evalLines]
  | cons l ls ih =>
    simp only [evalLines]
    have ha := evalList_dry cfg env ps h l.frags
    split
    · rename_i e1 e heq; rw [heq] at ha; simpa using ha
    · rename_i e1 x heq
      rw [heq] at ha
      split
      · rename_i e2 e heq2; rw [heq2] at ih; simp_all
      · rename_i e2 y heq2; rw [heq2] at ih; simp_all

theorem execs_map_echo (ls : List String) : execs (ls.map Ev.echo) = [] := by
  induction ls with
  | nil => rfl
  | cons x xs ih => simp_all [execs, isExec]

theorem runBody_dry (cfg : Cfg) (env : Env) (ri : Nat) (r : Recipe) (given ps : Args)
    (h : cfg.dryRun = true) : execs (runBody cfg env ri r given ps).1 = [] := by
  unfold runBody
  split
  · unfold runScript
    have ha := evalLines_dry cfg env ps h r.body
    split
    · rename_i e1 e heq; rw [heq] at ha; simpa using ha
    · rename_i e1 lines heq
      rw [heq] at ha
      simp only [h]
      simp only [if_true, execs_append, ha]
      split <;> simp [execs_map_echo]
  · exact runLines_dry cfg env ri r given ps h r.body

theorem execs_promptOf (cfg : Cfg) (r : Recipe) (ri : Nat) : execs (promptOf cfg r ri) = [] := by
  unfold promptOf; split <;> rfl

theorem dry_run_all {P : Prog} {cfg : Cfg} {env : Env} (h : cfg.dryRun = true)
    {c : Call} {es : List Ev} {res : Except Err Ran} (hr : Runs P cfg env c es res) :
    execs es = [] := by
  induction hr with
  | memo _ => rfl
  | outOfFuel => rfl
  | noRecipe _ _ => rfl
  | notConfirmed _ _ _ _ => rfl
  | @bindFail fuel sub ri given ran k r e1 e _ _ _ hb =>
    have := bindParams_dry cfg env h r.params given []
    rw [hb] at this
    simp [execs_promptOf, this]
  | @priorsFail fuel sub ri given ran k r e1 ps e2 e _ _ _ hb _ ih =>
    have := bindParams_dry cfg env h r.params given []
    rw [hb] at this
    simp [execs_promptOf, this, ih]
  | @bodyFail fuel sub ri given ran k r e1 ps e2 ran1 e3 e _ _ _ hb _ hbody ih =>
    have h1 := bindParams_dry cfg env h r.params given []
    rw [hb] at h1
    have h3 := runBody_dry cfg env ri r given ps h
    rw [hbody] at h3
    simp [execs_promptOf, h1, h3, ih]
  | @subsFail fuel sub ri given ran k r e1 ps e2 ran1 e3 e4 e _ _ _ hb _ hbody _ ih2 ih4 =>
    have h1 := bindParams_dry cfg env h r.params given []
    rw [hb] at h1
    have h3 := runBody_dry cfg env ri r given ps h
    rw [hbody] at h3
    simp [execs_promptOf, h1, h3, ih2, ih4]
  | @done fuel sub ri given ran k r e1 ps e2 ran1 e3 e4 ranS _ _ _ hb _ hbody _ ih2 ih4 =>
    have h1 := bindParams_dry cfg env h r.params given []
    rw [hb] at h1
    have h3 := runBody_dry cfg env ri r given ps h
    rw [hbody] at h3
    simp [execs_promptOf, h1, h3, ih2, ih4]
  | depsNil => rfl
  | depsSkip _ => rfl
  | @depsEvalFail fuel sub d ds ps ran k e1 e _ he =>
    have := evalList_dry cfg env ps h d.args
    rw [he] at this; exact this
  | @depsRecFail fuel sub d ds ps ran k e1 given e2 e _ he _ ih =>
    have := evalList_dry cfg env ps h d.args
    rw [he] at this
    simp [this, ih]
  | @depsCons fuel sub d ds ps ran k e1 given e2 ran1 e3 res _ he _ _ ih2 ih3 =>
    have := evalList_dry cfg env ps h d.args
    rw [he] at this
    simp [this, ih2, ih3]

/-- `--dry-run` executes nothing: no recipe command, script or backtick is spawned, for every
program, every invocation, every fuel, every memo state and every behaviour of the children. -/
theorem dry_run_executes_nothing (P : Prog) (cfg : Cfg) (env : Env) (h : cfg.dryRun = true)
    (fuel : Nat) (sub : Bool) (ri : Nat) (given : Args) (ran : Ran) (k : Nat) :
    execs (runRecipe P cfg env fuel sub ri given ran k).1 = [] :=
  dry_run_all h (runRecipe_sound P cfg env fuel sub ri given ran k _ _ rfl)

theorem runAssigns_dry (cfg : Cfg) (env : Env) (h : cfg.dryRun = true) (cs : List String) :
    execs (runAssigns cfg env cs).1 = [] := by
  induction cs with
  | nil => rfl
  | cons c cs ih =>
    simp only [runAssigns]
    have ha := evalA_dry cfg env [] h (.bt c)
    split
    · rename_i e1 e heq; rw [heq] at ha; exact ha
    · rename_i e1 v heq
      rw [heq] at ha
      simp_all

theorem runInvs_dry (P : Prog) (cfg : Cfg) (env : Env) (h : cfg.dryRun = true) (fuel : Nat)
    (invs : List Key) : ∀ ran k, execs (runInvs P cfg env fuel invs ran k).1 = [] := by
  induction invs with
  | nil => intro ran k; rfl
  | cons inv invs ih =>
    intro ran k
    obtain ⟨ri, given⟩ := inv
    simp only [runInvs]
    have h1 := dry_run_executes_nothing P cfg env h fuel false ri given ran k
    split
    · rename_i e1 e heq; rw [heq] at h1; exact h1
    · rename_i e1 ran1 heq
      rw [heq] at h1
      have := ih ran1 (k + countPrompts e1)
      simp_all

/-- the whole `just --dry-run …` run spawns nothing -/
theorem dry_run_main_executes_nothing (P : Prog) (cfg : Cfg) (env : Env) (h : cfg.dryRun = true)
    (invs : List Key) : execs (runMain P cfg env invs).1 = [] := by
  unfold runMain
  have h1 := runAssigns_dry cfg env h P.assigns
  split
  · rename_i e1 e heq; rw [heq] at h1; exact h1
  · rename_i e1 heq
    rw [heq] at h1
    have h2 := runInvs_dry P cfg env h (P.recipes.length + 1) invs [] 0
    split
    · rename_i e2 e heq2; rw [heq2] at h2; simp_all
    · rename_i e2 x heq2; rw [heq2] at h2; simp_all

/-- Non-vacuity: a dry run of a concrete recipe body prints its commands and spawns nothing,
although every command would fail. -/
example :
    let r : Recipe := { params := [], priors := [], subs := [], body := [] }
    runLines { dryRun := true } ⟨fun _ => .code 1, fun _ => "", fun _ => true⟩ 0 r [] []
        [⟨true, false, [.lit "a"]⟩, ⟨false, true, [.lit "b", .bt "c"]⟩]
      = ([.echo "a", .echo "b`c`"], .ok ()) := by
  simp [runLines, evalList, evalA, runCmd, echoes, concat, Cfg.loquacious]

/-- **The echo switches change nothing but the echo.**  Two configurations that agree on `--dry-run`, `--yes`
and `--no-deps` and differ arbitrarily in `--quiet`, `--verbose` and `set quiet`: for every program, every
environment (command statuses, backtick outputs, confirmation answers) and every invocation list the whole run
has the same exit status and exactly the same sequence of events other than echoed lines - the same processes
with the same command text, the same backticks, the same confirmation prompts, the same recipe bodies in the
same order.  (Proof: Lemmas/RunQuiet.lean, induction on the fuel of `runRecipe` / `runDeps`.) -/
theorem echo_switches_change_only_echo (P : Prog) (cfg cfg2 : Cfg) (env : Env) (invs : List Key)
    (hd : cfg2.dryRun = cfg.dryRun) (hy : cfg2.yes = cfg.yes) (hn : cfg2.noDeps = cfg.noDeps) :
    (runMain P cfg2 env invs).2 = (runMain P cfg env invs).2
    ∧ noEcho (runMain P cfg2 env invs).1 = noEcho (runMain P cfg env invs).1 :=
  runMain_rel ⟨hd, hy, hn⟩ P env invs

/-- in particular `--quiet` -/
theorem quiet_changes_no_execution (P : Prog) (cfg : Cfg) (env : Env) (invs : List Key) :
    (runMain P { cfg with quiet := true } env invs).2 = (runMain P cfg env invs).2
    ∧ noEcho (runMain P { cfg with quiet := true } env invs).1 = noEcho (runMain P cfg env invs).1 :=
  echo_switches_change_only_echo P cfg { cfg with quiet := true } env invs rfl rfl rfl

/-- **What `--dry-run` prints is what a real run executes.**  The same command line with and without `--dry-run`
(`DryOf`), a program whose recipes contain no backtick (a dry run shows a backtick as written, so values - and with
them memo keys - may differ otherwise), children that all succeed, any confirmation answers: the two runs end with the
same exit status, and the lines the dry run echoes, one after the other with their line ends (`dryText`), are exactly
the texts of the commands and script files the real run starts, in the same order (`realText`) - for every program,
every recipe graph, every command line.  (Proof: Lemmas/RunDry.lean, a simulation by induction on the runner's fuel.) -/
theorem dry_run_matches_real (P : Prog) (cfgR cfgD : Cfg) (env : Env) (invs : List Key) (h : DryOf cfgR cfgD)
    (hok : ∀ c, env.status c = .ok) (hP : ∀ r ∈ P.recipes, r.BtFree) :
    (runMain P cfgD env invs).2 = (runMain P cfgR env invs).2
    ∧ dryText (runMain P cfgD env invs).1 = realText (runMain P cfgR env invs).1 :=
  runMain_rel2 h hok P hP invs

/-- non-vacuity: the hypotheses are satisfiable and the texts are not empty -/
example :
    let r : Recipe := { params := [], priors := [], subs := [], body := [⟨false, false, [.lit "echo a"]⟩, ⟨true, true, [.lit "b"]⟩] }
    let P : Prog := ⟨["date"], [r]⟩
    let env : Env := ⟨fun _ => .ok, fun _ => "", fun _ => true⟩
    dryText (runMain P { dryRun := true } env [(0, [])]).1 = "echo a\nb\n"
      ∧ realText (runMain P {} env [(0, [])]).1 = "echo a\nb\n" := by
  simp [runMain, runAssigns, runInvs, runRecipe, runDeps, bindParams, runBody, runLines, evalList, evalA, runCmd, echoes, concat,
    Cfg.loquacious, dryText, realText, Status.toErr, countPrompts]

example : DryOf {} { dryRun := true } := ⟨rfl, rfl, rfl, rfl, rfl⟩

/-- and what is removed by `noEcho` is only echo: every other event survives, in order -/
theorem noEcho_keeps_everything_else (es : List Ev) :
    noEcho es = es.filter (fun e => match e with | .echo _ => false | _ => true) := by
  induction es with
  | nil => rfl
  | cons e es ih => cases e <;> simp [noEcho, ih]

/-! ### `--dry-run` starts no process for a backtick, wherever the backtick stands

The theorems above are about the Run model, whose expressions are literals, parameters, concatenations and
backticks.  This one is about the full expression language (`Just.Eval`, the model of src/evaluator.rs): every
constructor, every child position, every depth, assignments evaluated on the way included. -/
section DryRunBackticks
open Just Just.Eval

/-- **under `--dry-run` no backtick is executed**: for every expression without a `shell()` call — whatever it is made
of (`+`, `/`, `&&`, `||`, `if`/`else if` with any comparison, `assert`, function calls, groups, variables whose
assignments are evaluated on demand), whatever the state, the fuel and the enclosing scopes — evaluating it adds no
started process to the log.  A backtick as the operand of a comparison is a position like any other. -/
theorem dry_run_starts_no_backtick (ctx : Ctx) (hd : ctx.dryRun = true)
    (assigns : Option (List (String × Expr))) (ht : tableNoShell assigns) (fuel : Nat) (e : Expr) (st : St)
    (he : noShell e = true) :
    started (evalExpr ctx assigns fuel e st).1.log = started st.log :=
  (dryAt ctx hd assigns ht fuel).1 e st he

/-- the same for a whole table of assignments evaluated one by one (`--dry-run --evaluate`, the assignments a recipe
needs) -/
theorem dry_run_assignment_starts_no_backtick (ctx : Ctx) (hd : ctx.dryRun = true)
    (assigns : Option (List (String × Expr))) (ht : tableNoShell assigns) (fuel : Nat) (n : String) (e : Expr) (st : St)
    (he : noShell e = true) :
    started (evalAssignment ctx assigns fuel n e st).1.log = started st.log :=
  (dryAt ctx hd assigns ht fuel).2.2 n e st he

/-- the hypothesis `noShell` is needed and the real run differs: `shell()` does run under `--dry-run` (recorded
observation), and without `--dry-run` the backtick of the same expression is started -/
example :
    let e := Expr.cond (.backtick "c") .eq (.str "k") (.str "t") (.str "e")
    let dry : Ctx := { bt := fun _ => some "k", envVar := fun _ => none, dryRun := true, parent := fun _ => none }
    let real : Ctx := { dry with dryRun := false }
    started (evalExpr dry none 5 e ⟨[], []⟩).1.log = [] ∧
    started (evalExpr real none 5 e ⟨[], []⟩).1.log = ["c"] ∧
    started (evalExpr dry none 5 (.call "shell" (.cons (.str "c") .nil)) ⟨[], []⟩).1.log = ["c"] := by
  simp [evalExpr, evalExprs, started, evalCondOp]

end DryRunBackticks

end Just.Props.C14
