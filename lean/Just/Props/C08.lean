/-
C08 — exactly the declared variables are exported to child processes.
-/
import Just.Model.EnvExport
namespace Just.Props.C08
open Just.EnvExport

/-- value exported by one scope for `n` (the last exported binding of that name) -/
def exportedIn (setExport : Bool) : Scope → String → Option String
  | [], _ => none
  | b :: bs, n =>
    match exportedIn setExport bs n with
    | some v => some v
    | none => if isExported setExport b && b.name = n then some b.value else none

/-- innermost exported binding of `n` along a chain given outermost first -/
def lookupExported (setExport : Bool) : List Scope → String → Option String
  | [], _ => none
  | s :: rest, n =>
    match lookupExported setExport rest n with
    | some v => some v
    | none => exportedIn setExport s n

theorem exportBindings_eq (se : Bool) (s : Scope) (e : Env) (n : String) :
    exportBindings se s e n = match exportedIn se s n with
      | some v => some v
      | none => e n := by
  induction s generalizing e with
  | nil => rfl
  | cons b bs ih =>
    simp only [exportBindings, exportedIn]
    rw [ih]
    cases h : exportedIn se bs n with
    | some v => rfl
    | none =>
      simp only
      by_cases hx : isExported se b = true
      · by_cases hn : b.name = n
        · subst hn; simp [hx, setEnv]
        · have : ¬ n = b.name := fun h => hn h.symm
          simp [hx, hn, setEnv, this]
      · simp [hx]

theorem removeAll_eq (un : List String) (e : Env) (n : String) :
    removeAll un e n = if n ∈ un then none else e n := by
  induction un generalizing e with
  | nil => simp [removeAll]
  | cons k ks ih =>
    simp only [removeAll]
    rw [ih]
    by_cases hk : n = k
    · subst hk; simp [removeEnv]
    · by_cases hin : n ∈ ks
      · simp [hin]
      · simp [hin, hk, removeEnv]

/-- no scope other than the innermost exporting one exports a name that is unexported (the analyzer
rejects `unexport X` next to a variable X of the same module; the hypothesis is about names
exported by parent modules and parameters) -/
def NoConflict (se : Bool) (un : List String) : List Scope → Prop
  | [] => True
  | s :: rest => (rest ≠ [] → ∀ n ∈ un, exportedIn se s n = none) ∧ NoConflict se un rest

/-- **the environment set equation**: for every name, the child sees the innermost exported binding
among the enclosing scopes; otherwise nothing if the name is unexported; otherwise the value it had
before (dotenv entry or just's own environment). -/
theorem export_scopes_equation (se : Bool) (un : List String) (chain : List Scope) (e : Env)
    (n : String) (hne : chain ≠ []) (hnc : NoConflict se un chain) :
    exportScopes se un chain e n = match lookupExported se chain n with
      | some v => some v
      | none => if n ∈ un then none else e n := by
  induction chain generalizing e with
  | nil => exact absurd rfl hne
  | cons s rest ih =>
    simp only [exportScopes, lookupExported]
    cases rest with
    | nil =>
      simp only [exportScopes, lookupExported]
      rw [exportBindings_eq, removeAll_eq]
    | cons s2 rest2 =>
      obtain ⟨hs, hrest⟩ := hnc
      rw [ih _ (by simp) hrest]
      cases hl : lookupExported se (s2 :: rest2) n with
      | some v => rfl
      | none =>
        simp only
        rw [exportBindings_eq, removeAll_eq]
        by_cases hin : n ∈ un
        · have := hs (by simp) n hin
          simp [hin, this]
        · simp [hin]

theorem setAll_eq (kvs : List (String × String)) (e : Env) (n : String)
    (hfresh : ∀ kv ∈ kvs, e kv.1 = none) (hnodup : (kvs.map Prod.fst).Nodup) :
    setAll kvs e n = match kvs.lookup n with
      | some v => some v
      | none => e n := by
  induction kvs generalizing e with
  | nil => rfl
  | cons kv kvs ih =>
    obtain ⟨k, v⟩ := kv
    simp only [setAll]
    have hnd : (kvs.map Prod.fst).Nodup := (List.nodup_cons.mp hnodup).2
    have hk : k ∉ kvs.map Prod.fst := (List.nodup_cons.mp hnodup).1
    rw [ih _ _ hnd]
    · by_cases hn : n = k
      · subst hn
        have : kvs.lookup n = none := by
          apply List.lookup_eq_none_iff.mpr
          intro p hp
          have hne : n ≠ p.1 := by
            intro heq
            apply hk
            simp only [List.mem_map]
            exact ⟨p, hp, heq.symm⟩
          simpa using hne
        simp [this, setEnv, List.lookup]
      · have hne : (n == k) = false := by simpa using hn
        simp [List.lookup, hne, setEnv, hn]
    · intro kv' hkv'
      have h1 := hfresh kv' (List.mem_cons_of_mem _ hkv')
      have : kv'.1 ≠ k := by
        intro heq
        apply hk
        simp only [List.mem_map]
        exact ⟨kv', hkv', heq⟩
      simp [setEnv, this, h1]

/-- **C08 for every site**: the child's environment is just's own environment plus the dotenv
entries (which never shadow an existing variable), minus the unexported names, plus the exported
bindings of the enclosing scopes — innermost first — and never those of the scope being defined. -/
theorem env_set_equation (base : Env) (dotenv : List (String × String)) (se : Bool)
    (un : List String) (chain : List Scope) (n : String)
    (hne : chain.dropLast ≠ []) (hnc : NoConflict se un chain.dropLast)
    (hfresh : ∀ kv ∈ dotenv, base kv.1 = none) (hnodup : (dotenv.map Prod.fst).Nodup) :
    childEnv base dotenv se un chain n = match lookupExported se chain.dropLast n with
      | some v => some v
      | none => if n ∈ un then none else
        match dotenv.lookup n with
        | some v => some v
        | none => base n := by
  unfold childEnv
  rw [export_scopes_equation se un _ _ n hne hnc, setAll_eq dotenv base n hfresh hnodup]

/-- **the scope being defined is invisible**: bindings of the innermost scope never reach the
child (backticks and `shell()` of a module do not see that module's own exported variables;
a parameter default does not see earlier parameters) -/
theorem current_scope_invisible (base : Env) (dotenv : List (String × String)) (se : Bool)
    (un : List String) (outer : List Scope) (cur cur' : Scope) :
    childEnv base dotenv se un (outer ++ [cur]) = childEnv base dotenv se un (outer ++ [cur']) := by
  unfold childEnv
  simp

/-- **built-in constants are never exported**, with or without `set export` -/
theorem constants_never_exported (se : Bool) (b : Binding) (hc : b.constant = true)
    (he : b.exported = false) : isExported se b = false := by
  simp [isExported, hc, he]

/-- under `set export` every non-constant binding is exported; without it only marked ones -/
theorem exported_iff (se : Bool) (b : Binding) :
    isExported se b = (b.exported || (se && !b.constant)) := rfl

/-! ### the hypothesis is needed: a known corner of the code -/

/-- A parent module exports `X`, the submodule lists `unexport X`: for a recipe of the submodule
the removal is repeated at every inner level, so `X` is gone, which is what the statement wants
(`minus every such name listed in unexport`).  But an exported *parameter* `$X` of that recipe is
set after the removal of its own level and survives: plus wins over minus at the innermost
level only. -/
theorem unexport_vs_parameter :
    let parent : Scope := [⟨"X", "from-parent", true, false⟩]
    let params : Scope := [⟨"X", "from-param", true, false⟩]
    (exportScopes false ["X"] [parent, params] (fun _ => none)) "X" = some "from-param" ∧
    (exportScopes false ["X"] [parent, []] (fun _ => none)) "X" = none := by
  decide

/-- non-vacuity of `NoConflict` and of the equation on a three-level chain -/
example : NoConflict false ["U"] [[⟨"A", "1", true, false⟩], [⟨"B", "2", false, false⟩], [⟨"U", "3", true, false⟩]] := by
  refine ⟨fun _ n hn => ?_, fun _ n hn => ?_, fun h => absurd rfl h, trivial⟩ <;>
    (simp at hn; subst hn; decide)

end Just.Props.C08
