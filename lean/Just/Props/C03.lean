/-
C03 — reference, cycle and arity errors are rejected before anything runs.
Theorems about `Just.Analyzer` (variable walker, resolvers, arity checks).
-/
import Just.Model.Analyzer
import Just.Lemmas.Dfs
import Just.Lemmas.DfsFuel
import Just.Lemmas.ParsedCalls
import Just.Lemmas.Define
namespace Just.Props.C03
open Just Just.Analyzer

/-! ### the walker visits every syntactic position -/

mutual
/-- `x` occurs as a variable at SOME position of `e` -/
inductive Occurs (x : String) : Expr → Prop where
  | var : Occurs x (.var x)
  | callArg {fn : String} {args : Exprs} : OccursAny x args → Occurs x (.call fn args)
  | concatL {l r : Expr} : Occurs x l → Occurs x (.concat l r)
  | concatR {l r : Expr} : Occurs x r → Occurs x (.concat l r)
  | joinLL {l r : Expr} : Occurs x l → Occurs x (.joinL l r)
  | joinLR {l r : Expr} : Occurs x r → Occurs x (.joinL l r)
  | joinR {r : Expr} : Occurs x r → Occurs x (.joinR r)
  | andL {l r : Expr} : Occurs x l → Occurs x (.and l r)
  | andR {l r : Expr} : Occurs x r → Occurs x (.and l r)
  | orL {l r : Expr} : Occurs x l → Occurs x (.or l r)
  | orR {l r : Expr} : Occurs x r → Occurs x (.or l r)
  | condLhs {a b t e : Expr} {op : CondOp} : Occurs x a → Occurs x (.cond a op b t e)
  | condRhs {a b t e : Expr} {op : CondOp} : Occurs x b → Occurs x (.cond a op b t e)
  | condThen {a b t e : Expr} {op : CondOp} : Occurs x t → Occurs x (.cond a op b t e)
  | condElse {a b t e : Expr} {op : CondOp} : Occurs x e → Occurs x (.cond a op b t e)
  | assertLhs {a b m : Expr} {op : CondOp} : Occurs x a → Occurs x (.assert a op b m)
  | assertRhs {a b m : Expr} {op : CondOp} : Occurs x b → Occurs x (.assert a op b m)
  | assertMsg {a b m : Expr} {op : CondOp} : Occurs x m → Occurs x (.assert a op b m)
  | group {e : Expr} : Occurs x e → Occurs x (.group e)
inductive OccursAny (x : String) : Exprs → Prop where
  | head {e : Expr} {es : Exprs} : Occurs x e → OccursAny x (.cons e es)
  | tail {e : Expr} {es : Exprs} : OccursAny x es → OccursAny x (.cons e es)
end

mutual
theorem vars_of_occurs (x : String) : ∀ (e : Expr), Occurs x e → x ∈ e.vars
  | _, .var => by simp [Expr.vars]
  | _, .callArg h => by simp only [Expr.vars]; exact varsAny_of_occurs x _ h
  | _, .concatL h => by simp only [Expr.vars, List.mem_append]; exact Or.inl (vars_of_occurs x _ h)
  | _, .concatR h => by simp only [Expr.vars, List.mem_append]; exact Or.inr (vars_of_occurs x _ h)
  | _, .joinLL h => by simp only [Expr.vars, List.mem_append]; exact Or.inl (vars_of_occurs x _ h)
  | _, .joinLR h => by simp only [Expr.vars, List.mem_append]; exact Or.inr (vars_of_occurs x _ h)
  | _, .joinR h => by simp only [Expr.vars]; exact vars_of_occurs x _ h
  | _, .andL h => by simp only [Expr.vars, List.mem_append]; exact Or.inl (vars_of_occurs x _ h)
  | _, .andR h => by simp only [Expr.vars, List.mem_append]; exact Or.inr (vars_of_occurs x _ h)
  | _, .orL h => by simp only [Expr.vars, List.mem_append]; exact Or.inl (vars_of_occurs x _ h)
  | _, .orR h => by simp only [Expr.vars, List.mem_append]; exact Or.inr (vars_of_occurs x _ h)
  | _, .condLhs h => by have := vars_of_occurs x _ h; simp only [Expr.vars, List.mem_append]; simp [this]
  | _, .condRhs h => by have := vars_of_occurs x _ h; simp only [Expr.vars, List.mem_append]; simp [this]
  | _, .condThen h => by have := vars_of_occurs x _ h; simp only [Expr.vars, List.mem_append]; simp [this]
  | _, .condElse h => by have := vars_of_occurs x _ h; simp only [Expr.vars, List.mem_append]; simp [this]
  | _, .assertLhs h => by have := vars_of_occurs x _ h; simp only [Expr.vars, List.mem_append]; simp [this]
  | _, .assertRhs h => by have := vars_of_occurs x _ h; simp only [Expr.vars, List.mem_append]; simp [this]
  | _, .assertMsg h => by have := vars_of_occurs x _ h; simp only [Expr.vars, List.mem_append]; simp [this]
  | _, .group h => by simp only [Expr.vars]; exact vars_of_occurs x _ h
theorem varsAny_of_occurs (x : String) : ∀ (es : Exprs), OccursAny x es → x ∈ es.vars
  | _, .head h => by simp only [Exprs.vars, List.mem_append]; exact Or.inl (vars_of_occurs x _ h)
  | _, .tail h => by simp only [Exprs.vars, List.mem_append]; exact Or.inr (varsAny_of_occurs x _ h)
end

mutual
theorem occurs_of_vars (x : String) : ∀ (e : Expr), x ∈ e.vars → Occurs x e
  | .str _, h => by simp [Expr.vars] at h
  | .var y, h => by simp [Expr.vars] at h; subst h; exact .var
  | .backtick _, h => by simp [Expr.vars] at h
  | .call fn args, h => by simp only [Expr.vars] at h; exact .callArg (occursAny_of_vars x args h)
  | .concat l r, h => by
    simp only [Expr.vars, List.mem_append] at h
    rcases h with h | h
    · exact .concatL (occurs_of_vars x l h)
    · exact .concatR (occurs_of_vars x r h)
  | .joinL l r, h => by
    simp only [Expr.vars, List.mem_append] at h
    rcases h with h | h
    · exact .joinLL (occurs_of_vars x l h)
    · exact .joinLR (occurs_of_vars x r h)
  | .joinR r, h => by simp only [Expr.vars] at h; exact .joinR (occurs_of_vars x r h)
  | .and l r, h => by
    simp only [Expr.vars, List.mem_append] at h
    rcases h with h | h
    · exact .andL (occurs_of_vars x l h)
    · exact .andR (occurs_of_vars x r h)
  | .or l r, h => by
    simp only [Expr.vars, List.mem_append] at h
    rcases h with h | h
    · exact .orL (occurs_of_vars x l h)
    · exact .orR (occurs_of_vars x r h)
  | .cond a op b t e, h => by
    simp only [Expr.vars, List.mem_append] at h
    rcases h with ((h | h) | h) | h
    · exact .condLhs (occurs_of_vars x a h)
    · exact .condRhs (occurs_of_vars x b h)
    · exact .condThen (occurs_of_vars x t h)
    · exact .condElse (occurs_of_vars x e h)
  | .assert a op b m, h => by
    simp only [Expr.vars, List.mem_append] at h
    rcases h with (h | h) | h
    · exact .assertLhs (occurs_of_vars x a h)
    · exact .assertRhs (occurs_of_vars x b h)
    · exact .assertMsg (occurs_of_vars x m h)
  | .group e, h => by simp only [Expr.vars] at h; exact .group (occurs_of_vars x e h)
theorem occursAny_of_vars (x : String) : ∀ (es : Exprs), x ∈ es.vars → OccursAny x es
  | .nil, h => by simp [Exprs.vars] at h
  | .cons e es, h => by
    simp only [Exprs.vars, List.mem_append] at h
    rcases h with h | h
    · exact .head (occurs_of_vars x e h)
    · exact .tail (occursAny_of_vars x es h)
end

theorem vars_toList (x : String) : ∀ (es : Exprs), x ∈ es.vars ↔ ∃ e ∈ es.toList, x ∈ e.vars
  | .nil => by simp [Exprs.vars, Exprs.toList]
  | .cons e es => by
    have := vars_toList x es
    simp only [Exprs.vars, Exprs.toList, List.mem_append, List.mem_cons, this]
    constructor
    · rintro (h | ⟨e', he', hx⟩)
      · exact ⟨e, Or.inl rfl, h⟩
      · exact ⟨e', Or.inr he', hx⟩
    · rintro ⟨e', he' | he', hx⟩
      · subst he'; exact Or.inl hx
      · exact Or.inr ⟨e', he', hx⟩

/-- the stack machine yields exactly the variables of the expressions on its stack -/
theorem walk_mem (x : String) (st : List Expr) : x ∈ walk st ↔ ∃ e ∈ st, x ∈ e.vars := by
  fun_induction walk st <;>
    simp_all [Expr.vars, vars_toList, callOrder_perm] <;> grind

/-- **the walker is complete**: it reports a variable iff that variable occurs at some syntactic
position of the expression — any operand, any argument index of any function (including the
optional second argument of `env`), both sides of a condition, both branches, the assert message,
inside parentheses, at any depth. -/
theorem walk_complete (x : String) (e : Expr) : x ∈ walk [e] ↔ Occurs x e := by
  rw [walk_mem]
  constructor
  · rintro ⟨e', he', hx⟩
    simp at he'; subst he'
    exact occurs_of_vars x _ hx
  · intro h
    exact ⟨e, by simp, vars_of_occurs x e h⟩

/-! ### assignments: every reference is defined, and there is no cycle -/

theorem lookup_mem_keys {α : Type} (l : List (String × α)) (k : String) (v : α)
    (h : l.lookup k = some v) : k ∈ l.map Prod.fst := by
  induction l with
  | nil => simp [List.lookup] at h
  | cons p ps ih =>
    obtain ⟨k', v'⟩ := p
    simp only [List.lookup] at h
    split at h
    · rename_i heq
      have : k = k' := by simpa using heq
      simp [this]
    · simp [ih h]

theorem sorted_mem_is_node (g : Dfs.Graph) : ∀ (l : List String), Dfs.Sorted g l →
    ∀ n ∈ l, (g.succ n).isSome
  | [], _, n, hn => by cases hn
  | m :: rest, hs, n, hn => by
    obtain ⟨⟨ss, hss, _⟩, hrest⟩ := hs
    rcases List.mem_cons.mp hn with rfl | hn
    · simp [hss]
    · exact sorted_mem_is_node g rest hrest n hn

theorem dfs_all_rank (g : Dfs.Graph) (fuel : Nat) (roots order : List String)
    (h : Dfs.all g fuel roots [] = .ok order) :
    ∃ rank : String → Nat, ∀ n ∈ roots, ∃ ss, g.succ n = some ss ∧
      ∀ s ∈ ss, g.skip s = true ∨ ((g.succ s).isSome ∧ rank s < rank n) := by
  obtain ⟨hinv, _, hroots⟩ := Dfs.all_sound g fuel roots [] order
    ⟨trivial, List.nodup_nil, fun x hx => by cases hx⟩ h
  refine ⟨Dfs.rankIn order, fun n hn => ?_⟩
  obtain ⟨ss, hss, hall⟩ := Dfs.sorted_rank g order hinv.sorted hinv.nodup n (hroots n hn)
  refine ⟨ss, hss, fun s hs => ?_⟩
  rcases hall s hs with hk | ⟨hin, hlt⟩
  · exact Or.inl hk
  · exact Or.inr ⟨sorted_mem_is_node g order hinv.sorted s hin, hlt⟩

/-- **assignments accepted ⇒ every variable at every position is defined and nothing is defined
in terms of itself**: there is a rank on variable names such that every variable occurring
anywhere in an assignment's expression is a built-in constant that no assignment redefines, or a defined variable of
strictly smaller rank (so: no undefined reference, no self reference, no cycle of any length - also not through a variable
that is named like a constant: `HEX := HEX` was accepted and overflowed the stack when evaluated, repaired in 6e60f2d). -/
theorem assignments_accept_sound (m : Module) (order : List String)
    (h : resolveAssignments m = .ok order) :
    ∃ rank : String → Nat, ∀ n e, m.assigns.lookup n = some e → ∀ x, Occurs x e →
      (isConst x = true ∧ m.assigns.lookup x = none) ∨ ((m.assigns.lookup x).isSome ∧ rank x < rank n) := by
  unfold resolveAssignments at h
  split at h <;> try (cases h)
  rename_i order' hdfs
  obtain ⟨rank, hrank⟩ := dfs_all_rank (assignGraph m) _ _ _ hdfs
  refine ⟨rank, fun n e hne x hx => ?_⟩
  obtain ⟨ss, hss, hall⟩ := hrank n (lookup_mem_keys _ _ _ hne)
  simp only [assignGraph, hne, Option.map_some, Option.some.injEq] at hss
  subst hss
  rcases hall x ((walk_complete x e).mpr hx) with hk | ⟨hnode, hlt⟩
  · left
    simp only [assignGraph, Bool.and_eq_true, Option.isNone_iff_eq_none] at hk
    exact hk
  · right
    refine ⟨?_, hlt⟩
    simp only [assignGraph, Option.isSome_map] at hnode
    exact hnode

/-- contrapositive, as the property states it: an undefined variable ANYWHERE in an assignment
is rejected -/
theorem undefined_in_assignment_rejected (m : Module) (n x : String) (e : Expr)
    (hne : m.assigns.lookup n = some e) (hx : Occurs x e) (hc : isConst x = false)
    (hu : m.assigns.lookup x = none) : ∃ err, resolveAssignments m = .error err := by
  cases h : resolveAssignments m with
  | error err => exact ⟨err, rfl⟩
  | ok order =>
    obtain ⟨rank, hr⟩ := assignments_accept_sound m order h
    rcases hr n e hne x hx with hk | ⟨hs, _⟩
    · rw [hc] at hk; cases hk.1
    · rw [hu] at hs; cases hs

/-- a variable defined in terms of itself (directly) is rejected - whatever it is called: before the repair 6e60f2d this
needed the hypothesis that the name is not that of a built-in constant, and `HEX := HEX` was the counterexample -/
theorem self_reference_rejected (m : Module) (n : String) (e : Expr)
    (hne : m.assigns.lookup n = some e) (hx : Occurs n e) :
    ∃ err, resolveAssignments m = .error err := by
  cases h : resolveAssignments m with
  | error err => exact ⟨err, rfl⟩
  | ok order =>
    obtain ⟨rank, hr⟩ := assignments_accept_sound m order h
    rcases hr n e hne n hx with hk | ⟨_, hlt⟩
    · rw [hne] at hk; cases hk.2
    · omega

/-! ### recipes: dependencies exist, and the dependency graph is acyclic -/

theorem find_mem_names (m : Module) (n : String) (r : Recipe) (h : findRecipe m n = some r) :
    n ∈ m.recipes.map Recipe.name ∧ r.name = n := by
  unfold findRecipe at h
  have h1 := List.find?_some h
  have h2 := List.mem_of_find?_eq_some h
  have hn : r.name = n := by simpa using h1
  exact ⟨List.mem_map.mpr ⟨r, h2, hn⟩, hn⟩

/-- **recipes accepted ⇒ every dependency exists and no recipe depends on itself, however
indirectly**: a rank strictly decreases along every dependency edge (prior or subsequent) — this
is the `Acyclic` hypothesis of C01's theorems. -/
theorem recipes_accept_sound (m : Module) (order : List String)
    (h : resolveRecipes m = .ok order) :
    ∃ rank : String → Nat, ∀ n r, findRecipe m n = some r → ∀ d ∈ r.deps,
      (findRecipe m d.target).isSome ∧ rank d.target < rank n := by
  unfold resolveRecipes at h
  split at h <;> try (cases h)
  rename_i order' hdfs
  obtain ⟨rank, hrank⟩ := dfs_all_rank (recipeGraph m) _ _ _ hdfs
  refine ⟨rank, fun n r hnr d hd => ?_⟩
  obtain ⟨ss, hss, hall⟩ := hrank n (find_mem_names m n r hnr).1
  simp only [recipeGraph, hnr, Option.map_some, Option.some.injEq] at hss
  subst hss
  rcases hall d.target (List.mem_map.mpr ⟨d, hd, rfl⟩) with hk | ⟨hnode, hlt⟩
  · simp [recipeGraph] at hk
  · refine ⟨?_, hlt⟩
    simp only [recipeGraph, Option.isSome_map] at hnode
    exact hnode

/-! ### per-recipe scopes -/

theorem allDefined_iff (m : Module) (params : List String) (e : Expr) :
    allDefined m params e = true ↔ ∀ x, Occurs x e → defined m params x = true := by
  unfold allDefined
  rw [List.all_eq_true]
  constructor
  · intro h x hx; exact h x ((walk_complete x e).mpr hx)
  · intro h x hx; exact h x ((walk_complete x e).mp hx)

/-- **a parameter default may only see EARLIER parameters** (plus variables and constants) -/
theorem defaults_scope (m : Module) : ∀ (ps : List Param) (earlier : List String),
    defaultsOk m ps earlier = true →
    ∀ i p d, ps[i]? = some p → p.default = some d → ∀ x, Occurs x d →
      defined m (earlier ++ (ps.take i).map Param.name) x = true := by
  intro ps
  induction ps with
  | nil => intro earlier _ i p d hi; simp at hi
  | cons q qs ih =>
    intro earlier h i p d hi hd x hx
    simp only [defaultsOk, Bool.and_eq_true] at h
    cases i with
    | zero =>
      simp at hi; subst hi
      rw [hd] at h
      simp only [List.take_zero, List.map_nil, List.append_nil]
      exact (allDefined_iff m earlier d).mp h.1 x hx
    | succ j =>
      simp at hi
      have := ih (earlier ++ [q.name]) h.2 j p d hi hd x hx
      simpa [List.take_succ_cons, List.append_assoc] using this

/-- **dependency arguments and interpolations see all parameters**; every variable at every
position of them is defined -/
theorem recipe_vars_sound (m : Module) (r : Recipe) (h : recipeVarsOk m r = true) :
    (∀ i p d, r.params[i]? = some p → p.default = some d → ∀ x, Occurs x d →
      defined m ((r.params.take i).map Param.name) x = true) ∧
    (∀ d ∈ r.deps, ∀ a ∈ d.args, ∀ x, Occurs x a → defined m (r.params.map Param.name) x = true) ∧
    (∀ l ∈ checkedLines m r, ∀ e ∈ l.interps, ∀ x, Occurs x e →
      defined m (r.params.map Param.name) x = true) := by
  simp only [recipeVarsOk, Bool.and_eq_true, List.all_eq_true] at h
  obtain ⟨⟨h1, h2⟩, h3⟩ := h
  refine ⟨?_, ?_, ?_⟩
  · intro i p d hi hd x hx
    have := defaults_scope m r.params [] h1 i p d hi hd x hx
    simpa using this
  · intro d hd a ha x hx
    exact (allDefined_iff m _ a).mp (h2 d hd a ha) x hx
  · intro l hl e he x hx
    exact (allDefined_iff m _ e).mp (h3 l hl e he) x hx

/-! ### function calls -/

mutual
/-- a call somewhere in `e` is wrong: unknown function, or a number of arguments its arity class
does not accept -/
inductive BadCall : Expr → Prop where
  | here {fn : String} {args : Exprs} :
      (match functionClass fn with
        | some cls => classAccepts cls args.length
        | none => false) = false → BadCall (.call fn args)
  | callArg {fn : String} {args : Exprs} : BadCallAny args → BadCall (.call fn args)
  | concatL {l r : Expr} : BadCall l → BadCall (.concat l r)
  | concatR {l r : Expr} : BadCall r → BadCall (.concat l r)
  | joinLL {l r : Expr} : BadCall l → BadCall (.joinL l r)
  | joinLR {l r : Expr} : BadCall r → BadCall (.joinL l r)
  | joinR {r : Expr} : BadCall r → BadCall (.joinR r)
  | andL {l r : Expr} : BadCall l → BadCall (.and l r)
  | andR {l r : Expr} : BadCall r → BadCall (.and l r)
  | orL {l r : Expr} : BadCall l → BadCall (.or l r)
  | orR {l r : Expr} : BadCall r → BadCall (.or l r)
  | condLhs {a b t e : Expr} {op : CondOp} : BadCall a → BadCall (.cond a op b t e)
  | condRhs {a b t e : Expr} {op : CondOp} : BadCall b → BadCall (.cond a op b t e)
  | condThen {a b t e : Expr} {op : CondOp} : BadCall t → BadCall (.cond a op b t e)
  | condElse {a b t e : Expr} {op : CondOp} : BadCall e → BadCall (.cond a op b t e)
  | assertLhs {a b m : Expr} {op : CondOp} : BadCall a → BadCall (.assert a op b m)
  | assertRhs {a b m : Expr} {op : CondOp} : BadCall b → BadCall (.assert a op b m)
  | assertMsg {a b m : Expr} {op : CondOp} : BadCall m → BadCall (.assert a op b m)
  | group {e : Expr} : BadCall e → BadCall (.group e)
inductive BadCallAny : Exprs → Prop where
  | head {e : Expr} {es : Exprs} : BadCall e → BadCallAny (.cons e es)
  | tail {e : Expr} {es : Exprs} : BadCallAny es → BadCallAny (.cons e es)
end

mutual
/-- **a wrong call at any position is rejected** -/
theorem callsOk_false_of_bad : ∀ (e : Expr), BadCall e → e.callsOk = false
  | .call fn args, .here h => by
    simp only [Expr.callsOk]
    cases hfc : functionClass fn with
    | none => simp
    | some cls => rw [hfc] at h; simp only at h; simp [h]
  | _, .callArg h => by simp [Expr.callsOk, callsOkAny_false_of_bad _ h]
  | _, .concatL h => by simp [Expr.callsOk, callsOk_false_of_bad _ h]
  | _, .concatR h => by simp [Expr.callsOk, callsOk_false_of_bad _ h]
  | _, .joinLL h => by simp [Expr.callsOk, callsOk_false_of_bad _ h]
  | _, .joinLR h => by simp [Expr.callsOk, callsOk_false_of_bad _ h]
  | _, .joinR h => by simp [Expr.callsOk, callsOk_false_of_bad _ h]
  | _, .andL h => by simp [Expr.callsOk, callsOk_false_of_bad _ h]
  | _, .andR h => by simp [Expr.callsOk, callsOk_false_of_bad _ h]
  | _, .orL h => by simp [Expr.callsOk, callsOk_false_of_bad _ h]
  | _, .orR h => by simp [Expr.callsOk, callsOk_false_of_bad _ h]
  | _, .condLhs h => by simp [Expr.callsOk, callsOk_false_of_bad _ h]
  | _, .condRhs h => by simp [Expr.callsOk, callsOk_false_of_bad _ h]
  | _, .condThen h => by simp [Expr.callsOk, callsOk_false_of_bad _ h]
  | _, .condElse h => by simp [Expr.callsOk, callsOk_false_of_bad _ h]
  | _, .assertLhs h => by simp [Expr.callsOk, callsOk_false_of_bad _ h]
  | _, .assertRhs h => by simp [Expr.callsOk, callsOk_false_of_bad _ h]
  | _, .assertMsg h => by simp [Expr.callsOk, callsOk_false_of_bad _ h]
  | _, .group h => by simp [Expr.callsOk, callsOk_false_of_bad _ h]
theorem callsOkAny_false_of_bad : ∀ (es : Exprs), BadCallAny es → es.callsOk = false
  | _, .head h => by simp [Exprs.callsOk, callsOk_false_of_bad _ h]
  | _, .tail h => by simp [Exprs.callsOk, callsOkAny_false_of_bad _ h]
end

/-- every function documented in the README is in the table regenerated from src/function.rs with
its documented arity class (removing or re-typing one breaks this obligation; adding a function
does not) -/
def documentedFunctions : List (String × String) := [
  ("absolute_path", "Unary"), ("append", "Binary"), ("arch", "Nullary"), ("blake3", "Unary"),
  ("blake3_file", "Unary"), ("cache_directory", "Nullary"), ("canonicalize", "Unary"),
  ("capitalize", "Unary"), ("choose", "Binary"), ("clean", "Unary"), ("config_directory", "Nullary"),
  ("config_local_directory", "Nullary"), ("data_directory", "Nullary"),
  ("data_local_directory", "Nullary"), ("datetime", "Unary"), ("datetime_utc", "Unary"),
  ("encode_uri_component", "Unary"), ("env", "UnaryOpt"), ("env_var", "Unary"),
  ("env_var_or_default", "Binary"), ("error", "Unary"), ("executable_directory", "Nullary"),
  ("extension", "Unary"), ("file_name", "Unary"), ("file_stem", "Unary"),
  ("home_directory", "Nullary"), ("invocation_directory", "Nullary"),
  ("invocation_directory_native", "Nullary"), ("is_dependency", "Nullary"), ("join", "BinaryPlus"),
  ("just_executable", "Nullary"), ("just_pid", "Nullary"), ("justfile", "Nullary"),
  ("justfile_directory", "Nullary"), ("kebabcase", "Unary"), ("lowercamelcase", "Unary"),
  ("lowercase", "Unary"), ("module_directory", "Nullary"), ("module_file", "Nullary"),
  ("num_cpus", "Nullary"), ("os", "Nullary"), ("os_family", "Nullary"),
  ("parent_directory", "Unary"), ("path_exists", "Unary"), ("prepend", "Binary"),
  ("quote", "Unary"), ("read", "Unary"), ("replace", "Ternary"), ("replace_regex", "Ternary"),
  ("require", "Unary"), ("semver_matches", "Binary"), ("sha256", "Unary"), ("sha256_file", "Unary"),
  ("shell", "UnaryPlus"), ("shoutykebabcase", "Unary"), ("shoutysnakecase", "Unary"),
  ("snakecase", "Unary"), ("source_directory", "Nullary"), ("source_file", "Nullary"),
  ("style", "Unary"), ("titlecase", "Unary"), ("trim", "Unary"), ("trim_end", "Unary"),
  ("trim_end_match", "Binary"), ("trim_end_matches", "Binary"), ("trim_start", "Unary"),
  ("trim_start_match", "Binary"), ("trim_start_matches", "Binary"), ("uppercamelcase", "Unary"),
  ("uppercase", "Unary"), ("uuid", "Nullary"), ("which", "Unary"), ("without_extension", "Unary")]

theorem documented_functions_present :
    documentedFunctions.all (fun e => Generated.functionTable.contains e) = true := by
  decide

/-! ### `ignore-comments`: what the resolver skips and what the evaluator visits -/

theorem checkLoop_eq_evalLoop (ignore : Bool) : ∀ (ls : List Line) (c : Bool),
    checkLoop ignore c ls = evalLoop ignore c ls := by
  intro ls
  induction ls with
  | nil => intro c; rfl
  | cons l ls ih =>
    intro c
    cases c <;> cases ignore <;> cases hc : l.isComment <;> simp [checkLoop, evalLoop, hc, ih]

/-- **every line the evaluator will evaluate has been checked by the resolver** (and only those),
for linewise and script recipes, with and without `ignore-comments`, with continuations — so an
accepted recipe cannot meet an undefined variable at run time (holds for the repaired resolver). -/
theorem checked_eq_evaluated (m : Module) (r : Recipe) : checkedLines m r = evaluatedLines m r := by
  unfold checkedLines evaluatedLines
  cases hs : r.script
  · simp [checkLoop_eq_evalLoop]
  · simp only [Bool.not_true, Bool.and_false, if_true]
    -- with `ignore = false` nothing is skipped
    have : ∀ (ls : List Line) (c : Bool), checkLoop false c ls = ls := by
      intro ls
      induction ls with
      | nil => intro c; rfl
      | cons l ls ih => intro c; simp [checkLoop, ih]
    exact this _ _

/-- **the defect that was repaired** (`fix:` commit): the pinned resolver skipped EVERY
comment-looking line under `ignore-comments`, although `run_script` evaluates all lines and
`run_linewise` evaluates a comment-looking line that continues a command — an undefined variable
there was accepted and failed at run time with an internal error (witnesses for both cases). -/
theorem old_resolver_gap :
    let script : Recipe := ⟨"r", [], [], [⟨[.var "undefined"], true, false⟩], true⟩
    let cont : Recipe := ⟨"r", [], [], [⟨[], false, true⟩, ⟨[.var "undefined"], true, false⟩], false⟩
    let ms : Module := ⟨[], [script], true⟩
    let mc : Module := ⟨[], [cont], true⟩
    (oldCheckedLines ms script).length = 0 ∧ (evaluatedLines ms script).length = 1 ∧
      (oldCheckedLines mc cont).length = 1 ∧ (evaluatedLines mc cont).length = 2 := by
  decide

/-- without `ignore-comments` every line is checked -/
theorem all_lines_checked (m : Module) (r : Recipe) (h : m.ignoreComments = false) :
    checkedLines m r = r.body := by
  unfold checkedLines
  have : ∀ (ls : List Line) (c : Bool), checkLoop false c ls = ls := by
    intro ls
    induction ls with
    | nil => intro c; rfl
    | cons l ls ih => intro c; simp [checkLoop, ih]
  simp [h, this]

/-! ### the resolvers' fuel is an artefact of the model -/

/-- the fuel of the assignment resolver (number of assignments + 1) is never exhausted -/
theorem resolveAssignments_no_fuel (m : Module) : resolveAssignments m ≠ .error .fuel := by
  intro h
  unfold resolveAssignments at h
  have hf := Dfs.all_no_fuel (assignGraph m) (m.assigns.map Prod.fst)
    (fun s hs => Dfs.lookup_isSome_mem m.assigns s (by simpa [assignGraph] using hs))
    (m.assigns.length + 1) (by simp) (m.assigns.map Prod.fst) []
  split at h
  all_goals first
    | (rename_i heq; exact hf heq)
    | cases h

/-- the fuel of the recipe resolver (number of recipes + 1) is never exhausted -/
theorem resolveRecipes_no_fuel (m : Module) : resolveRecipes m ≠ .error .fuel := by
  intro h
  unfold resolveRecipes at h
  have hf := Dfs.all_no_fuel (recipeGraph m) (m.recipes.map Recipe.name)
    (fun s hs => by
      simp only [recipeGraph, findRecipe, Option.isSome_map] at hs
      cases hfind : m.recipes.find? (fun r => decide (r.name = s)) with
      | none => rw [hfind] at hs; cases hs
      | some r =>
        have hmem := List.mem_of_find?_eq_some hfind
        have hp := List.find?_some hfind
        simp only [decide_eq_true_eq] at hp
        exact List.mem_map.mpr ⟨r, hmem, hp⟩)
    (m.recipes.length + 1) (by simp) (m.recipes.map Recipe.name) []
  split at h
  all_goals first
    | (rename_i heq; exact hf heq)
    | cases h


/-- **A call of an unknown function or with a wrong number of arguments never leaves the parser**: `parse_value` runs
`Thunk::resolve` on every call, so no expression `parse_expression` returns contains a `BadCall` - whatever the tokens, at
any depth, in any position.  (Links the parser model of C10 with the call check of this model: `fnOk` = `callsOk`.) -/
theorem bad_call_never_parses (f : Nat) (ts : List Syntax.Tk) (e : Expr) (r : List Syntax.Tk)
    (h : Syntax.parseExpression f ts = some (e, r)) : ¬ BadCall e := by
  intro hb
  have h1 := Syntax.parsed_callsOk f ts e r h
  rw [callsOk_false_of_bad e hb] at h1
  cases h1

/-! ### a name defined twice -/
open Just.Define in
/-- **Duplicate definitions are rejected exactly when the statement says so**: a module passes the
duplicate checks iff no two of its aliases, submodules and recipes share a name — except two
*recipes* under `allow-duplicate-recipes` — and no two assignments share a name unless
`allow-duplicate-variables` is set.  In whatever order the items are written and met (the analyzer
defines aliases and modules first and recipes afterwards): the verdict depends on the set of
definitions only. -/
theorem duplicates_rejected_iff (allowRecipes allowVars : Bool) (items : List Def) (vars : List String) :
    accepts allowRecipes allowVars items vars = true ↔
      (items.Pairwise (Compatible allowRecipes) ∧ (allowVars = true ∨ vars.Nodup)) := by
  unfold accepts
  rw [Bool.and_eq_true, defineAll_isSome]
  have hperm := order_perm items
  have hp : (order items).Pairwise (Compatible allowRecipes) ↔ items.Pairwise (Compatible allowRecipes) :=
    hperm.pairwise_iff (fun h => Compatible.symm h)
  rw [hp]
  have ht : TableOk allowRecipes [] (order items) := by intro d _ k0 hk; simp [List.lookup] at hk
  have hv : (allowVars || !hasDup vars) = true ↔ (allowVars = true ∨ vars.Nodup) := by
    rw [Bool.or_eq_true, ← hasDup_iff]
    cases hasDup vars <;> simp
  rw [hv]
  constructor
  · intro ⟨⟨h1, _⟩, h2⟩; exact ⟨h1, h2⟩
  · intro ⟨h1, h2⟩; exact ⟨⟨h1, ht⟩, h2⟩

theorem pairwise_mem {α : Type} {R : α → α → Prop} : ∀ {l : List α}, l.Pairwise R →
    ∀ {a b : α}, a ∈ l → b ∈ l → a ≠ b → R a b ∨ R b a
  | [], _, _, _, ha, _, _ => by cases ha
  | x :: xs, hp, a, b, ha, hb, hne => by
    rw [List.pairwise_cons] at hp
    rcases List.mem_cons.mp ha with rfl | ha'
    · rcases List.mem_cons.mp hb with rfl | hb'
      · exact absurd rfl hne
      · exact Or.inl (hp.1 b hb')
    · rcases List.mem_cons.mp hb with rfl | hb'
      · exact Or.inr (hp.1 a ha')
      · exact pairwise_mem hp.2 ha' hb' hne

open Just.Define in
/-- in particular `allow-duplicate-recipes` never lets a recipe take the name of an alias or of a
submodule (nor the other way round), wherever the two stand -/
theorem mixed_kinds_always_rejected (allowRecipes allowVars : Bool) (items : List Def) (vars : List String)
    (a b : Def) (ha : a ∈ items) (hb : b ∈ items) (hn : a.name = b.name) (hk : a.kind ≠ b.kind) :
    accepts allowRecipes allowVars items vars = false := by
  cases h : accepts allowRecipes allowVars items vars with
  | false => rfl
  | true =>
    exfalso
    rw [duplicates_rejected_iff] at h
    have hne : a ≠ b := fun heq => hk (by rw [heq])
    have := pairwise_mem h.1 ha hb hne
    rcases this with hc | hc
    · have := hc hn; exact hk (by rw [this.2.1, this.2.2])
    · have := hc hn.symm; exact hk (by rw [this.2.1, this.2.2])

open Just.Define in
/-- non-vacuity: two recipes `build` pass under the setting; a recipe and an alias `build` never -/
example : accepts true false [⟨"build", .recipe⟩, ⟨"x", .alias⟩, ⟨"build", .recipe⟩] ["v"] = true ∧
    accepts true true [⟨"build", .recipe⟩, ⟨"build", .alias⟩] [] = false ∧
    accepts true true [⟨"build", .alias⟩, ⟨"build", .recipe⟩] [] = false ∧
    accepts false true [⟨"m", .module⟩, ⟨"m", .recipe⟩] [] = false ∧
    accepts true false [] ["v", "v"] = false := by decide

end Just.Props.C03
