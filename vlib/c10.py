"""C10 - formatting preserves meaning and is idempotent.

Proof: lean/Just/Props/C10.lean - the expression printer and the recursive-descent expression
parser at token level: parse (print e) = e for every expression the parser can produce, hence
print is idempotent through parse.
Statement oracle (in-process through jv `compile`, which returns the JSON dump and the formatted
text): for every generated justfile x that compiles, f = format(x) compiles, dump(f) == dump(x),
format(f) == f.  `--fmt --check` / `--fmt` are driven through the binary on files.
"""
import itertools
import json
import os
import random
import re

from . import common as C
from . import lexgen as G

BOOL_SETTINGS = ["allow-duplicate-recipes", "allow-duplicate-variables", "dotenv-load", "dotenv-required", "export", "fallback",
                 "ignore-comments", "no-exit-message", "positional-arguments", "quiet", "unstable", "windows-powershell"]
STRING_SETTINGS = ["dotenv-filename", "dotenv-path", "tempdir", "working-directory"]
LIST_SETTINGS = ["shell", "script-interpreter", "windows-shell"]
FUNCS1 = ["trim", "uppercase", "lowercase", "quote", "env", "kebabcase", "clean", "shell"]
FUNCS2 = ["append", "prepend", "trim_end_match", "env", "semver_matches", "join"]
FUNCS3 = ["replace", "replace_regex"]
FUNCS0 = ["arch", "os", "justfile", "invocation_directory", "uuid", "num_cpus"]


def gen_string(rng):
    r = rng.random()
    body = rng.choice(["", "a", "a b", "x/y", "\u4e2d", "$HOME", "~/p", "it''s".replace("''", ""), "{{", "}}", "#", "a\\tb", "%", "\U0001F600"])
    if r < 0.35:
        return "'%s'" % body.replace("'", "")
    if r < 0.65:
        esc = rng.choice(["", "\\n", "\\t", "\\\"", "\\\\", "\\u{1F600}", "\\r", "\\\n   cont"])
        return '"%s%s"' % (body.replace('"', "").replace("\\", "\\\\"), esc)
    if r < 0.70:
        return "'''\n    %s\n      more\n  '''" % body.replace("'", "")
    if r < 0.75:
        # triple-quoted literals written on one line: their own quote character inside, leading blanks, nothing at all
        return rng.choice(["'''it's here'''", '"""say "hi" twice"""', "'''   padded'''", '"""  two  """', "''''''", '"""a\\tb"""', "'''a '' b'''"])
    if r < 0.85:
        return '"""\n  %s\\n\n  z"""' % body.replace('"', "").replace("\\", "\\\\")
    if r < 0.95:
        return "x'%s'" % rng.choice(["~/a", "$HOME/b", "${HOME:-d}", "plain"])
    return 'x"%s"' % rng.choice(["~", "${USER:-u}", "a"])


def gen_value(rng, depth, names):
    r = rng.random()
    if depth <= 0 or r < 0.3:
        r2 = rng.random()
        if r2 < 0.5:
            return gen_string(rng)
        if r2 < 0.8 and names:
            return rng.choice(names)
        if r2 < 0.9:
            return rng.choice(["`echo bt`", "```\n  echo indented\n    more\n```", "`echo '{{'`"])
        return "%s()" % rng.choice(FUNCS0)
    if r < 0.45:
        return "(%s)" % gen_expr(rng, depth - 1, names)
    if r < 0.6:
        return "%s(%s)" % (rng.choice(FUNCS1), gen_expr(rng, depth - 1, names))
    if r < 0.7:
        return "%s(%s, %s%s)" % (rng.choice(FUNCS2), gen_expr(rng, depth - 1, names), gen_expr(rng, depth - 1, names), rng.choice(["", ",", " ,"]))
    if r < 0.75:
        return "%s(%s, %s, %s)" % (rng.choice(FUNCS3), gen_expr(rng, depth - 1, names), gen_string(rng), gen_string(rng))
    if r < 0.85:
        return "assert(%s %s %s, %s)" % (gen_expr(rng, depth - 1, names), rng.choice(["==", "!=", "=~", "!~"]), gen_string(rng) if rng.random() < 0.7 else gen_expr(rng, depth - 1, names), gen_expr(rng, depth - 1, names))
    return gen_string(rng)


def gen_conditional(rng, depth, names):
    op = rng.choice(["==", "!=", "=~", "!~"])
    rhs = gen_string(rng) if op in ("=~", "!~") else gen_expr(rng, depth - 1, names)
    s = "if %s %s %s { %s } else " % (gen_expr(rng, depth - 1, names), op, rhs, gen_expr(rng, depth - 1, names))
    r = rng.random()
    if r < 0.3 and depth > 0:
        return s + gen_conditional(rng, depth - 1, names)
    if r < 0.4 and depth > 0:
        return s + "{ %s }" % gen_conditional(rng, depth - 1, names)
    return s + "{ %s }" % gen_expr(rng, depth - 1, names)


def gen_conjunct(rng, depth, names):
    r = rng.random()
    if depth <= 0 or r < 0.4:
        return gen_value(rng, depth, names)
    if r < 0.6:
        return "%s + %s" % (gen_value(rng, depth - 1, names), gen_conjunct(rng, depth - 1, names))
    if r < 0.75:
        return "%s / %s" % (gen_value(rng, depth - 1, names), gen_conjunct(rng, depth - 1, names))
    if r < 0.8:
        return "/ %s" % gen_conjunct(rng, depth - 1, names)
    return gen_conditional(rng, depth, names)


def gen_disjunct(rng, depth, names):
    if depth > 0 and rng.random() < 0.15:
        return "%s && %s" % (gen_conjunct(rng, depth - 1, names), gen_disjunct(rng, depth - 1, names))
    return gen_conjunct(rng, depth, names)


def gen_expr(rng, depth, names):
    if depth > 0 and rng.random() < 0.12:
        return "%s || %s" % (gen_disjunct(rng, depth - 1, names), gen_expr(rng, depth - 1, names))
    return gen_disjunct(rng, depth, names)


def respace(rng, text):
    """vary insignificant white space in an expression (outside of strings it is all insignificant)"""
    return text


ATTRS = ["private", "no-cd", "no-exit-message", "no-quiet", "positional-arguments", "linux", "macos", "unix", "windows", "openbsd",
         "confirm", "confirm('sure?')", "confirm: \"go\"", "doc('documented')", "doc", "group('g1')", "group: 'g2'", "exit-message",
         "extension('.py')", "script", "script('sh', '-eu')", "working-directory('sub')", "extension: '.sh'"]


def one_line(gen):
    """retry until the generated text has no line break (multi-line strings stay in assignments)"""
    for _ in range(50):
        t = gen()
        if "\n" not in t:
            return t
    return "'x'"


def gen_recipe(rng, name, names, recipes):
    out = []
    if rng.random() < 0.3:
        out.append("# doc comment %s" % rng.choice(["", "x", "\u4e2d", "with `ticks`"]))
    attrs = []
    for _ in range(rng.choice([0, 0, 1, 1, 2, 3])):
        a = rng.choice(ATTRS)
        key = a.split("(")[0].split(":")[0]
        if key in [x.split("(")[0].split(":")[0] for x in attrs]:
            continue
        attrs.append(a)
    keys = {x.split("(")[0].split(":")[0] for x in attrs}
    if "no-cd" in keys and "working-directory" in keys:
        attrs = [a for a in attrs if not a.startswith("no-cd")]
    if "exit-message" in keys and "no-exit-message" in keys:
        attrs = [a for a in attrs if not a.startswith("no-exit-message")]
    if "extension" in keys and "script" not in keys:
        attrs = [a for a in attrs if not a.startswith("extension")]
    script = "script" in keys
    os_keys = keys & {"windows", "macos", "openbsd", "linux", "unix"}
    enabled = not os_keys or bool(os_keys & {"linux", "unix"})
    if attrs:
        if rng.random() < 0.3 and len(attrs) > 1:
            out.append("[%s]" % ", ".join(attrs))
        else:
            for a in attrs:
                out.append("[%s]" % a)
    params = []
    pnames = []
    state = 0
    for i in range(rng.choice([0, 0, 1, 2, 3])):
        pn = "p%d" % i
        r = rng.random()
        exp = "$" if rng.random() < 0.2 else ""
        if r < 0.4 and state == 0:
            params.append("%s%s" % (exp, pn))
        elif r < 0.8:
            params.append("%s%s=%s" % (exp, pn, one_line(lambda: gen_value(rng, 1, names + pnames))))
            state = 1
        else:
            kind = rng.choice(["+", "*"])
            d = "=%s" % one_line(lambda: gen_value(rng, 1, names + pnames)) if rng.random() < 0.5 or state == 1 else ""
            params.append("%s%s%s%s" % (kind, exp, pn, d))
            pnames.append(pn)
            break
        pnames.append(pn)
    deps = []
    for r2 in rng.sample(recipes, min(len(recipes), rng.choice([0, 0, 1, 2]))):
        rname, rmin, rmax = r2[:3]
        n = rng.randint(rmin, min(rmax, rmin + 2))
        if n == 0 and rng.random() < 0.7:
            deps.append(rname)
        else:
            def arg():
                a = one_line(lambda: gen_value(rng, 1, names + pnames))
                return "(%s)" % a if a in names + pnames else a
            deps.append("(%s%s)" % (rname, "".join(" " + arg() for _ in range(n))))
    if deps and rng.random() < 0.3 and len(deps) > 1:
        k = rng.randint(1, len(deps) - 1)
        deps = deps[:k] + ["&&"] + deps[k:]
    head = "%s%s%s:%s" % ("@" if rng.random() < 0.15 else "", name, "".join(" " + p for p in params), "".join(" " + d for d in deps))
    out.append(head)
    ind = rng.choice(["  ", "\t", "    "])
    shebang = (not script) and rng.random() < 0.2
    nlines = rng.choice([0, 1, 1, 2, 3, 4])
    body = []
    if shebang:
        body.append("#!/usr/bin/env sh")
    for i in range(nlines):
        r = rng.random()
        if r < 0.1 and i > 0:
            body.append(None)
            continue
        sig = rng.choice(["", "", "@", "-", "@-"]) if not (shebang or script) else ""
        parts = [rng.choice(["echo", "ls -l", "x=1", "# note", "printf '%s'", "\u4e2d"])]
        for _ in range(rng.choice([0, 1, 2])):
            r3 = rng.random()
            if r3 < 0.5:
                e = one_line(lambda: gen_expr(rng, 2, names + pnames))
                parts.append("{{%s%s%s}}" % (rng.choice(["", " "]), e, " " if e.endswith("}") else rng.choice(["", " "])))
            elif r3 < 0.7:
                parts.append("{{{{ raw }}")
            else:
                parts.append(rng.choice(["a b", "'q'", "\"d\"", "$x", "}}"]))
        line = sig + " ".join(parts)
        if (shebang or script) and rng.random() < 0.3 and body:
            line = "  " + line
        if not (shebang or script) and rng.random() < 0.15:
            line += " \\"
            body.append(line)
            body.append("    continued %s" % rng.choice(["x", "{{'v'}}"]))
            continue
        body.append(line)
    for b in body:
        out.append("" if b is None else ind + b)
    required = sum(1 for p in params if "=" not in p and not p.startswith("*"))
    variadic = any(p.startswith("+") or p.startswith("*") for p in params)
    return "\n".join(out) + "\n", (name, required, 99 if variadic else len(params), enabled)


def gen_justfile(seed, index):
    rng = C.case_rng(seed, index, "c10")
    items = []
    names = []
    recipes = []
    used_settings = set()
    n = rng.randint(1, 9)
    nv = nr = na = 0
    for _ in range(n):
        r = rng.random()
        if r < 0.15:
            s = rng.choice(BOOL_SETTINGS + STRING_SETTINGS + LIST_SETTINGS)
            if s in used_settings:
                continue
            used_settings.add(s)
            if s in BOOL_SETTINGS:
                items.append("set %s%s\n" % (s, rng.choice(["", " := true", " := false", ":=true"])))
            elif s in STRING_SETTINGS:
                items.append("set %s := %s\n" % (s, rng.choice(["'x'", '"y"', "'.env2'"])))
            else:
                items.append("set %s := [%s]\n" % (s, ", ".join(rng.choice(["'sh'", '"bash"', "'-c'", "'-eu'"]) for _ in range(rng.randint(1, 3))) + rng.choice(["", ","])))
        elif r < 0.45:
            name = "v%d" % nv
            nv += 1
            pre = rng.choice(["", "", "export ", "[private]\n"])
            items.append("%s%s %s %s\n" % (pre, name, ":=", gen_expr(rng, 3, names)))
            names.append(name)
        elif r < 0.55:
            items.append("# comment %s\n" % rng.choice(["a", "\u4e2d", "x := y", ""]))
            if rng.random() < 0.5:
                items.append("\n")
        elif r < 0.62 and recipes:
            items.append("%salias a%d := %s\n" % (rng.choice(["", "", "[private]\n"]), na, rng.choice(recipes)[0]))
            na += 1
        elif r < 0.66 and names:
            nm = rng.choice(names)
            if ("unexport %s\n" % nm.upper()) not in items:
                items.append("unexport %s\n" % nm.upper())
        else:
            text, sig = gen_recipe(rng, "r%d" % nr, names, recipes)
            nr += 1
            items.append(text)
            if sig[3]:
                recipes.append(sig)
            if rng.random() < 0.7:
                items.append("\n")
    text = "".join(items)
    if rng.random() < 0.15 and "\\\n" not in text:
        text = text.replace("\n", "\r\n")
    if rng.random() < 0.1:
        text = text.rstrip("\r\n")
    return text


# exhaustive small expressions -------------------------------------------------------------------

def exhaustive_exprs(depth):
    leaves = ["'a'", "v", "`b`"]
    level = {0: list(leaves)}
    for d in range(1, depth + 1):
        prev = level[d - 1]
        small = prev[:6] if d > 1 else prev
        cur = list(prev)
        for a in small:
            cur.append("(%s)" % a)
            cur.append("trim(%s)" % a)
            cur.append("/ %s" % a)
        for a, b in itertools.product(small, repeat=2):
            cur.append("%s + %s" % (a if d == 1 else "(%s)" % a, b))
            cur.append("%s / %s" % (a if d == 1 else "(%s)" % a, b))
            cur.append("%s && %s" % (a, b))
            cur.append("%s || %s" % (a, b))
            cur.append("append(%s, %s)" % (a, b))
            cur.append("if %s == %s { 'c' } else { %s }" % (a, b, a))
            cur.append("if %s != 'x' { %s } else if 'y' =~ 'z' { 'c' } else { %s }" % (a, b, a))
            cur.append("assert(%s == %s, 'm')" % (a, b))
        level[d] = cur
    return level[depth]



# model correspondence: expression parser / printer at token level ---------------------------------

KIND_TO_TK = {"Plus": "plus", "Slash": "slash", "AmpersandAmpersand": "andand", "BarBar": "barbar", "ParenL": "lparen", "ParenR": "rparen",
              "Comma": "comma", "BraceL": "lbrace", "BraceR": "rbrace", "EqualsEquals": "eqeq", "BangEquals": "bangeq",
              "EqualsTilde": "eqtilde", "BangTilde": "bangtilde"}


def to_tks(text, toks, keep_eol=False):
    """lexer tokens of an expression text -> model tokens (white space dropped)"""
    b = text.encode("utf-8")
    out = []
    prev = None
    for t in toks:
        k = t["kind"]
        lex = b[t["offset"]:t["offset"] + t["length"]].decode("utf-8")
        before, prev = prev, (k, lex)
        if k in ("Whitespace", "Eof") or (k == "Eol" and not keep_eol):
            continue
        if k == "Identifier":
            out.append({"k": "ident", "s": lex})
        elif k == "StringToken":
            # a string token written directly after the identifier `x` (no white space): a shell-expanded literal
            # when parse_value meets the `x` (src/parser.rs next_is_shell_expanded_string)
            out.append({"k": "strAdj" if before == ("Identifier", "x") else "str", "s": lex})
        elif k == "Backtick":
            out.append({"k": "bt", "s": lex})
        elif k in KIND_TO_TK:
            out.append({"k": KIND_TO_TK[k]})
        else:
            out.append({"k": k})
    return out


def gen_model_expr(rng, depth, lvl=3):
    """expressions whose leaves are plain one-line literals (so that the dump shows them as written)"""
    def value(d):
        r = rng.random()
        if d <= 0 or r < 0.35:
            return rng.choice(["'s%d'" % rng.randrange(5), "v%d" % rng.randrange(3), "`b%d`" % rng.randrange(3), "arch()", "else", "x", "assert_", "iff",
                               "x's%d'" % rng.randrange(5), "x 's%d'" % rng.randrange(5)])
        if r < 0.55:
            return "(%s)" % expr(d - 1)
        if r < 0.7:
            return "trim(%s)" % expr(d - 1)
        if r < 0.8:
            return "replace(%s, %s, %s%s)" % (expr(d - 1), expr(d - 1), expr(d - 1), rng.choice(["", ","]))
        if r < 0.9:
            return "assert(%s %s %s, %s)" % (expr(d - 1), rng.choice(["==", "!=", "=~", "!~"]), expr(d - 1), expr(d - 1))
        return "env(%s)" % expr(d - 1)

    def conditional(d):
        s = "if %s %s %s { %s } else " % (expr(d - 1), rng.choice(["==", "!=", "=~", "!~"]), expr(d - 1), expr(d - 1))
        r = rng.random()
        if r < 0.35 and d > 0:
            return s + conditional(d - 1)
        if r < 0.5 and d > 0:
            return s + "{ %s }" % conditional(d - 1)
        return s + "{ %s }" % expr(d - 1)

    def conjunct(d):
        r = rng.random()
        if d <= 0 or r < 0.35:
            return value(d)
        if r < 0.55:
            return "%s + %s" % (value(d - 1), conjunct(d - 1))
        if r < 0.7:
            return "%s / %s" % (value(d - 1), conjunct(d - 1))
        if r < 0.8:
            return "/ %s" % conjunct(d - 1)
        return conditional(d)

    def disjunct(d):
        if d > 0 and rng.random() < 0.25:
            return "%s && %s" % (conjunct(d - 1), disjunct(d - 1))
        return conjunct(d)

    def expr(d):
        if d > 0 and rng.random() < 0.2:
            return "%s || %s" % (disjunct(d - 1), expr(d - 1))
        return disjunct(d)

    return expr(depth)


def model_stream(report, jv, dr, tier):
    rng = random.Random(report.seed ^ 0x1010)
    n = 3000 if tier == "quick" else 60000
    exprs = [gen_model_expr(rng, rng.randint(1, 4)) for _ in range(n)]
    exprs += [e for e in exhaustive_exprs(2)[:1500]]
    decls = "v := 'q'\nv0 := 'a'\nv1 := 'b'\nv2 := 'c'\nelse := 'e'\nx := 'x'\nassert_ := 'z'\niff := 'i'\nset unstable\n"
    comp = jv.pbatch([{"op": "compile", "src": decls + "subject := " + e + "\n"} for e in exprs], chunk=500)
    lexed = jv.pbatch([{"op": "lex", "src": e} for e in exprs])
    ok = [(e, c, l) for e, c, l in zip(exprs, comp, lexed) if "dump" in c and "tokens" in l]
    model = dr.pbatch([{"op": "syntax", "tokens": to_tks(e, l["tokens"])} for e, c, l in ok])
    # the printed form as the implementation prints it
    printed_texts = []
    for e, c, l in ok:
        f = c["formatted"]
        marker = "subject := "
        i = f.index(marker) + len(marker)
        printed_texts.append(f[i:f.index("\n", i)])
    relex = jv.pbatch([{"op": "lex", "src": t} for t in printed_texts])
    mism = 0
    for (e, c, l), m, ptext, rl in zip(ok, model, printed_texts, relex):
        replay = {"op": "model", "expr": e}
        want_ast = c["dump"]["assignments"]["subject"]["value"]
        if m.get("ast") != want_ast or m.get("rest") != 0:
            mism += 1
            report.failure("c10-model-parser", "Lean expression parser and parser.rs disagree on the tree", dict(replay, correspondence="expression parser (vlib/c10.py)", model=m.get("ast"), impl=want_ast), no_input=True)
            continue
        if "tokens" not in rl or m.get("printed") != to_tks(ptext, rl["tokens"]):
            mism += 1
            report.failure("c10-model-printer", "Lean expression printer and Display for Expression disagree on the printed tokens",
                           dict(replay, correspondence="expression printer (vlib/c10.py)", model=m.get("printed"), impl=ptext), no_input=True)
            continue
        if not m.get("reparse_same"):
            mism += 1
            report.failure("c10-model-roundtrip", "the model's own round trip failed on a parsed expression", replay, no_input=True)
    return {"model_expressions": len(exprs), "model_compiling": len(ok), "model_mismatches": mism}



def gen_header(rng, idx):
    """a recipe header line over plain leaves; returns (text of the whole justfile, header line)"""
    leaf = lambda d: gen_model_expr(rng, d)
    name = "r%d" % idx
    params = []
    state = 0
    for i in range(rng.choice([0, 0, 1, 2, 3])):
        exp = "$" if rng.random() < 0.25 else ""
        if state == 0 and rng.random() < 0.5:
            params.append("%sp%d" % (exp, i))
        else:
            state = 1
            # a default is a VALUE: literal, variable, backtick, call or parenthesised expression
            d = rng.choice(["'s1'", "v0", "`b1`", "arch()", "(%s)" % leaf(2), "trim(%s)" % leaf(1)])
            params.append("%sp%d=%s" % (exp, i, d))
    variadic = ""
    if rng.random() < 0.35:
        d = "=%s" % rng.choice(["'s2'", "v1", "(%s)" % leaf(1)]) if (state == 1 or rng.random() < 0.4) else ""
        variadic = "%s%sq%s" % (rng.choice(["+", "*"]), "$" if rng.random() < 0.2 else "", d)

    def dep():
        n = rng.choice([0, 0, 1, 2, 3])
        if n == 0 and rng.random() < 0.7:
            return "t0"
        args = []
        for k in range(n):
            a = leaf(rng.randint(0, 2))
            # an argument that starts with `(` or `/` would continue the previous one when that is a name or a value
            # (kept half of the time: the two parsers must then agree on the merged reading - `v0 (…)` is a call, `x 's'` a literal)
            if k > 0 and (a.startswith("(") or a.startswith("/")) and rng.random() < 0.5:
                a = "'s3'"
            args.append(a)
        return "(t%d%s)" % (n, "".join(" " + a for a in args))
    priors = [dep() for _ in range(rng.choice([0, 0, 1, 2]))]
    subs = [dep() for _ in range(rng.choice([0, 0, 0, 1, 2]))]
    line = "%s%s%s%s:%s%s" % ("@" if rng.random() < 0.2 else "", name, "".join(" " + p for p in params), (" " + variadic) if variadic else "",
                               "".join(" " + d for d in priors), (" &&" + "".join(" " + d for d in subs)) if subs else "")
    return line


def header_stream(report, jv, dr, tier):
    rng = random.Random(report.seed ^ 0x4ead)
    n = 2500 if tier == "quick" else 40000
    decls = ("v := 'q'\nv0 := 'a'\nv1 := 'b'\nv2 := 'c'\nelse := 'e'\nx := 'x'\nassert_ := 'z'\niff := 'i'\nset unstable\n"
             "t0:\nt1 a:\nt2 a b:\nt3 a b c:\n")
    lines = [gen_header(rng, i) for i in range(n)]
    comp = jv.pbatch([{"op": "compile", "src": decls + l + "\n"} for l in lines], chunk=500)
    lexed = jv.pbatch([{"op": "lex", "src": l + "\n"} for l in lines])
    ok = [(i, l, c, lx) for i, (l, c, lx) in enumerate(zip(lines, comp, lexed)) if "dump" in c and "tokens" in lx]
    model = dr.pbatch([{"op": "header", "tokens": to_tks(l + "\n", lx["tokens"], keep_eol=True)} for i, l, c, lx in ok])
    printed_lines = []
    for i, l, c, lx in ok:
        f = c["formatted"]
        name = "r%d" % i
        start = max(f.find("\n" + name + " "), f.find("\n" + name + ":"), f.find("\n@" + name))
        start += 1
        printed_lines.append(f[start:f.index("\n", start)] + "\n")
    relex = jv.pbatch([{"op": "lex", "src": t} for t in printed_lines])
    mism = 0
    for (i, l, c, lx), m, pl, rl in zip(ok, model, printed_lines, relex):
        replay = {"op": "header-model", "line": l}
        rec = c["dump"]["recipes"]["r%d" % i]
        want = {"name": rec["name"], "quiet": rec["quiet"], "parameters": rec["parameters"],
                "dependencies": [{"recipe": d["recipe"], "arguments": d["arguments"]} for d in rec["dependencies"]], "priors": rec["priors"]}
        got = {k: m.get(k) for k in want}
        if got != want or m.get("rest") != 0:
            mism += 1
            report.failure("c10-model-header-parser", "Lean header parser and parse_recipe disagree", dict(replay, correspondence="recipe header parser (vlib/c10.py)", model=got, impl=want), no_input=True)
            continue
        if "tokens" not in rl or m.get("printed") != to_tks(pl, rl["tokens"], keep_eol=True):
            mism += 1
            report.failure("c10-model-header-printer", "Lean header printer and ColorDisplay for Recipe disagree on the printed tokens",
                           dict(replay, correspondence="recipe header printer (vlib/c10.py)", model=m.get("printed"), impl=pl), no_input=True)
            continue
        if not m.get("reparse_same"):
            mism += 1
            report.failure("c10-model-header-roundtrip", "the model's own header round trip failed", replay, no_input=True)
    return {"header_lines": len(lines), "header_compiling": len(ok), "header_mismatches": mism}



def to_item_tks(text, toks):
    """tokens of an item: white space and Eof dropped, Text tokens carry their lexeme"""
    b = text.encode("utf-8")
    out = []
    for t, m in zip([t for t in toks if t["kind"] not in ("Whitespace", "Eof")], to_tks(text, toks, keep_eol=True)):
        if t["kind"] == "Text":
            out.append({"k": "Text", "s": b[t["offset"]:t["offset"] + t["length"]].decode("utf-8")})
        else:
            out.append(m)
    return out


def gen_item(rng, idx):
    """returns (kind, name, text of the item)"""
    r = rng.random()
    if r < 0.2:
        name = "av%d" % idx
        return "assignment", name, "%s%s := %s\n" % (rng.choice(["", "", "export "]), name, gen_model_expr(rng, rng.randint(0, 3)))
    if r < 0.3:
        name = "al%d" % idx
        return "alias", name, "alias %s := t%d\n" % (name, rng.randint(0, 3))
    head = gen_header(rng, idx)
    ind = rng.choice(["  ", "\t", "    "])
    lines = []
    for k in range(rng.choice([0, 1, 1, 2, 3, 4])):
        if k > 0 and rng.random() < 0.12:
            lines.append("")
            continue
        parts = []
        for _ in range(rng.randint(1, 4)):
            r2 = rng.random()
            if r2 < 0.45:
                parts.append(rng.choice(["echo", "a b", "x=1;", "#c", "'q'", "}}", "$x", "\u4e2d", "{{{{ raw }}"]))
            elif r2 < 0.8:
                e = gen_model_expr(rng, rng.randint(0, 2))
                parts.append("{{%s%s%s}}" % (rng.choice(["", " "]), e, " " if e.endswith("}") else rng.choice(["", " "])))
            else:
                parts.append(" ")
        line = "".join(parts)
        if line.strip() == "" or line[0] in " \t" or line.startswith("#!"):
            line = "w" + line
        lines.append(line)
    while lines and lines[-1] == "":
        lines.pop()
    return "recipe", "r%d" % idx, head + "\n" + "".join((ind + l if l else "") + "\n" for l in lines)


def item_stream(report, jv, dr, tier):
    rng = random.Random(report.seed ^ 0x17e5)
    n = 2500 if tier == "quick" else 40000
    decls = ("v := 'q'\nv0 := 'a'\nv1 := 'b'\nv2 := 'c'\nelse := 'e'\nx := 'x'\nassert_ := 'z'\niff := 'i'\nset unstable\n"
             "t0:\nt1 a:\nt2 a b:\nt3 a b c:\n")
    items = [gen_item(rng, i) for i in range(n)]
    comp = jv.pbatch([{"op": "compile", "src": decls + text} for _, _, text in items], chunk=500)
    lexed = jv.pbatch([{"op": "lex", "src": text} for _, _, text in items])
    ok = [(k, nm, t, c, lx) for (k, nm, t), c, lx in zip(items, comp, lexed) if "dump" in c and "tokens" in lx]
    model = dr.pbatch([{"op": "item", "tokens": to_item_tks(t, lx["tokens"])} for k, nm, t, c, lx in ok])
    # the printed form of the item as the implementation prints it
    printed = []
    for k, nm, t, c, lx in ok:
        f = c["formatted"]
        key = {"assignment": nm + " :=", "alias": "alias " + nm + " :=", "recipe": nm}[k]
        cands = [i for i in [f.find("\n" + key), f.find("\nexport " + key), f.find("\n@" + key)] if i >= 0]
        start = min(cands) + 1
        printed.append(f[start:])     # the item is the last one of the file
    relex = jv.pbatch([{"op": "lex", "src": p} for p in printed])
    mism = 0
    kinds = {}
    for (k, nm, t, c, lx), m, ptext, rl in zip(ok, model, printed, relex):
        kinds[k] = kinds.get(k, 0) + 1
        replay = {"op": "item-model", "text": t}
        d = c["dump"]
        if k == "assignment":
            want = {"kind": k, "name": nm, "export": d["assignments"][nm]["export"], "value": d["assignments"][nm]["value"]}
        elif k == "alias":
            want = {"kind": k, "name": nm, "target": [d["aliases"][nm]["target"]]}
        else:
            rec = d["recipes"][nm]
            want = {"kind": k, "name": nm, "quiet": rec["quiet"], "parameters": rec["parameters"], "priors": rec["priors"],
                    "dependencies": [{"recipe": x["recipe"], "arguments": x["arguments"]} for x in rec["dependencies"]], "body": rec["body"]}
        got = {key: m.get(key) for key in want}
        if got != want or m.get("rest") != 0:
            mism += 1
            report.failure("c10-model-item-parser:%s" % k, "Lean item parser and parser.rs disagree", dict(replay, correspondence="item parser (vlib/c10.py)", model=got, impl=want), no_input=True)
            continue
        if "tokens" not in rl or m.get("printed") != to_item_tks(ptext, rl["tokens"]):
            mism += 1
            report.failure("c10-model-item-printer:%s" % k, "Lean item printer and the formatter disagree on the printed tokens",
                           dict(replay, correspondence="item printer (vlib/c10.py)", model=m.get("printed"), impl=ptext), no_input=True)
            continue
        if not m.get("reparse_same"):
            mism += 1
            report.failure("c10-model-item-roundtrip:%s" % k, "the model's own item round trip failed", replay, no_input=True)
    return {"items": len(items), "items_compiling": len(ok), "item_kinds": kinds, "item_mismatches": mism}


def to_file_tks(text, toks):
    """tokens of a whole justfile: white space dropped; Text and Comment tokens carry their lexeme; Eol, Indent, Dedent, Eof,
    ByteOrderMark kept by kind"""
    b = text.encode("utf-8")
    kept = [t for t in toks if t["kind"] not in ("Whitespace", "Eof")]
    base = to_tks(text, [t for t in toks if t["kind"] != "Eof"], keep_eol=True)
    out = []
    for t, m in zip(kept, base):
        k = t["kind"]
        if k in ("Text", "Comment"):
            out.append({"k": k, "s": b[t["offset"]:t["offset"] + t["length"]].decode("utf-8")})
        else:
            out.append(m)
    if any(t["kind"] == "Eof" for t in toks):
        out.append({"k": "Eof"})
    return out


T3 = "'" * 3
D3 = '"' * 3
AST_ATTRS = ATTRS + ["script('sh')", "script(x'sh', \"-c\")", "group(x'g3')", "group('a')", "group(\"b\")", "group(%sc%s)" % (T3, T3), "doc(\"two\\nlines\")",
                     "confirm(x 'spaced')", "nosuch", "private('x')", "group", "extension('.a', '.b')", "confirm('a',)"]
AST_LITS = ["'s'", '"d"', "x's'", "x \"d\"", "%st%s" % (T3, T3), "%su%s" % (D3, D3), "'a b'", "'中'"]
PARSER_ERRORS = {"UnexpectedToken", "ExpectedKeyword", "UnknownSetting", "UnknownAttribute", "AttributeArgumentCountMismatch", "DuplicateAttribute",
                 "ExtraneousAttributes", "InvalidAttribute", "ShebangAndScriptAttribute", "NoCdAndWorkingDirectoryAttribute",
                 "ExitMessageAndNoExitMessageAttribute", "ParameterFollowsVariadicParameter", "UnknownFunction", "FunctionArgumentCountMismatch"}


def gen_ast_file(rng, idx):
    """whole justfiles that exercise the item loop of parse_ast: every item kind, doc comments, attribute lines in both
    syntaxes and grouped, trailing comments, blank lines anywhere, several items on one line where the parser allows it,
    shell-expanded literals, a missing final newline, a byte order mark; a share of them is deliberately malformed"""
    out = []
    nrec = 0
    used = set()
    bad = rng.random() < 0.25

    def trail():
        r = rng.random()
        return "  # trailing" if r < 0.12 else ("#t" if r < 0.16 else "")

    def attr_lines(pool, n):
        lines = []
        chosen = [rng.choice(pool) for _ in range(n)]
        if not bad:
            seen = set()
            keep = []
            for a in chosen:
                key = a.split("(")[0].split(":")[0]
                if key in ("nosuch",) or a in ("private('x')", "group", "extension('.a', '.b')", "confirm('a',)"):
                    continue
                if key in seen and key != "group":
                    continue
                if key == "group" and a in keep:
                    continue
                seen.add(key)
                keep.append(a)
            chosen = keep
            keys = {a.split("(")[0].split(":")[0] for a in chosen}
            if "no-cd" in keys and "working-directory" in keys:
                chosen = [a for a in chosen if not a.startswith("no-cd")]
            if "exit-message" in keys and "no-exit-message" in keys:
                chosen = [a for a in chosen if not a.startswith("exit-message")]
        i = 0
        while i < len(chosen):
            k = rng.choice([1, 1, 1, 2, 3])
            lines.append("[%s]%s" % (", ".join(chosen[i:i + k]), trail()))
            i += k
        return lines

    for _ in range(rng.randint(1, 8)):
        r = rng.random()
        if r < 0.14:
            out.append("#%s%s" % (rng.choice(["", " ", "  ", "\t"]), rng.choice(["note", "", "doc 中", "x := 1", "trailing space  ", "#!shebang", " "])))
            if rng.random() < 0.35:
                out.append("")
        elif r < 0.24:
            nm = rng.choice(BOOL_SETTINGS + STRING_SETTINGS + LIST_SETTINGS + (["nosuch"] if bad else []))
            if nm in used and not bad:
                continue
            used.add(nm)
            if nm in BOOL_SETTINGS:
                out.append("set %s%s%s" % (nm, rng.choice(["", " := true", " := false", ":=true", " := maybe" if bad else ""]), trail()))
            elif nm in STRING_SETTINGS:
                out.append("set %s := %s%s" % (nm, rng.choice(AST_LITS), trail()))
            else:
                lits = [rng.choice(AST_LITS) for _ in range(rng.randint(1, 3))]
                out.append("set %s := [%s%s]%s" % (nm, ", ".join(lits), rng.choice(["", ","]), trail()))
        elif r < 0.36:
            nm = rng.choice(["w%d" % rng.randrange(6), "_hidden%d" % rng.randrange(3), "export", "alias", "set", "mod"])
            if nm in used and not bad:
                continue
            used.add(nm)
            pre = rng.choice(["", "", "export ", "[private]\n", "[private]\nexport "])
            out.append("%s%s := %s%s" % (pre, nm, gen_model_expr(rng, rng.randint(0, 2)), trail()))
        elif r < 0.44 and nrec:
            out.extend(attr_lines(["private", "private", "no-cd" if bad else "private"], rng.choice([0, 0, 1])))
            nm = "al%d_%d" % (idx, len(out))
            out.append("alias %s := r%d%s" % (nm, rng.randrange(nrec), trail()))
        elif r < 0.50:
            out.append("unexport %s%s" % (rng.choice(["FOO", "BAR", "x"]), "" if not bad else trail()))
        elif r < 0.58:
            out.append("import%s %s" % (rng.choice(["", "?"]), rng.choice(AST_LITS)) + rng.choice(["", "", " # c", " import 'again.just'"]))
        elif r < 0.68:
            if rng.random() < 0.3:
                out.append("# module doc")
            out.extend(attr_lines(["group('mg')", "doc('md')", "doc", "group: 'mh'", "private" if bad else "doc"], rng.choice([0, 0, 1, 2])))
            nm = "m%d" % rng.randrange(4)
            if nm in used and not bad:
                out.append("")
                continue
            used.add(nm)
            out.append("mod%s %s%s" % (rng.choice(["", "?"]), nm, rng.choice(["", "", " 'p.just'", " x'p.just'", " # c"])))
        else:
            if rng.random() < 0.35:
                out.append("#%s%s" % (rng.choice(["", " ", "   "]), rng.choice(["doc", "doc  ", "", "d 中", "!"])))
                if rng.random() < 0.15:
                    out.append("")
            out.extend(attr_lines(AST_ATTRS, rng.choice([0, 0, 1, 1, 2, 3])))
            name = rng.choice(["r%d" % nrec, "r%d" % nrec, "_r%d" % nrec]) if rng.random() < 0.9 else rng.choice(["set", "mod", "import", "alias", "export", "unexport"])
            if name in used:
                continue
            used.add(name)
            head = gen_header(rng, 0).split(":", 1)[0].replace("r0", name, 1) + ":" + trail()
            out.append(head)
            if name.lstrip("_").startswith("r"):
                nrec += 1
            ind = rng.choice(["  ", "\t", "    "])
            for k in range(rng.choice([0, 0, 1, 2, 3])):
                if k > 0 and rng.random() < 0.15:
                    out.append("")
                out.append(ind + rng.choice(["echo a", "#!/bin/sh", "# c", "x {{v}} y", "{{'s'}}", "@-ls", "a \\", "  deeper"]))
        if bad and rng.random() < 0.12:
            # Thunk::resolve runs in the parser: unknown functions and wrong argument counts are parse errors
            out.append("wf%d := %s" % (len(out), rng.choice(["nosuch('x')", "trim()", "trim('a', 'b')", "arch('x')", "replace('a', 'b')", "join('a')",
                                                               "env()", "env('a', 'b', 'c')", "justfile_dir()", "justfile_dir('x')", "home_dir_native()"])))
        if rng.random() < 0.4:
            out.append("")
    text = "v := 'q'\nv0 := 'a'\nv1 := 'b'\nv2 := 'c'\nelse := 'e'\nx := 'x'\nassert_ := 'z'\niff := 'i'\n" + "\n".join(out) + "\n"
    r = rng.random()
    if r < 0.1:
        text = text.rstrip("\n")
    elif r < 0.15:
        text = "﻿" + text
    elif r < 0.22 and "\\\n" not in text:
        text = text.replace("\n", "\r\n")
    return text


def ast_summary(dump):
    """what the items of a justfile determine in the JSON dump (names, docs, attribute names, privacy, settings, unexports)"""
    out = {"recipes": {}, "assignments": {}, "aliases": {}, "unexports": sorted(dump.get("unexports") or [])}
    for n, r in dump["recipes"].items():
        out["recipes"][n] = {"doc": r["doc"], "attributes": sorted((a if isinstance(a, str) else list(a)[0]) for a in r["attributes"]), "private": r["private"],
                             "quiet": r["quiet"], "parameters": [p["name"] for p in r["parameters"]], "priors": r["priors"],
                             "dependencies": [d["recipe"] for d in r["dependencies"]], "lines": len(r["body"])}
    for n, a in dump["assignments"].items():
        out["assignments"][n] = {"export": a["export"], "private": a["private"]}
    for n, a in dump["aliases"].items():
        out["aliases"][n] = {"private": "private" in a["attributes"], "target": a["target"]}
    return out


def model_summary(items):
    out = {"recipes": {}, "assignments": {}, "aliases": {}, "unexports": []}
    flags = {}
    dup = False
    for it in items:
        k = it["kind"]
        if k == "recipe":
            names = [a["name"] for a in it["attributes"]]
            os_attrs = set(names) & {"windows", "macos", "openbsd", "linux", "unix"}
            if os_attrs and not (os_attrs & {"linux", "unix"}):
                continue          # disabled on this system: not in the dump
            dup = dup or it["name"] in out["recipes"]
            out["recipes"][it["name"]] = {"doc": it["doc"], "attributes": sorted(names), "private": it["name"].startswith("_") or "private" in names,
                                          "quiet": it["quiet"], "parameters": [p["name"] for p in it["parameters"]], "priors": it["priors"],
                                          "dependencies": [d["recipe"] for d in it["dependencies"]], "lines": len(it["body"]),
                                          "_docattr": "doc" in names}
        elif k == "assignment":
            dup = dup or it["name"] in out["assignments"]
            out["assignments"][it["name"]] = {"export": it["export"], "private": it["private"]}
        elif k == "alias":
            out["aliases"][it["name"]] = {"private": it["private"], "target": it["target"][-1]}
        elif k == "unexport":
            out["unexports"].append(it["name"])
        elif k == "set" and isinstance(it["value"], bool):
            dup = dup or it["name"] in flags
            flags[it["name"].replace("-", "_")] = it["value"]
    out["unexports"] = sorted(out["unexports"])
    return out, flags, dup


def ast_stream(report, jv, dr, tier, corpus):
    """whole files: the Lean parse_ast / Display-for-Ast model against parser.rs and the formatter"""
    rng = random.Random(report.seed ^ 0xa57)
    n = 3000 if tier == "quick" else 40000
    srcs = [gen_ast_file(rng, i) for i in range(n)]
    extra = list(corpus)
    rng.shuffle(extra)
    srcs += extra[: (1500 if tier == "quick" else 30000)]
    comp = jv.pbatch([{"op": "compile", "src": s} for s in srcs], chunk=500)
    lexed = jv.pbatch([{"op": "lex", "src": s} for s in srcs])
    def parser_error(c):
        # InvalidAttribute on a recipe comes from the analyzer (`[extension]` without a script)
        return c.get("error") in PARSER_ERRORS and not (c.get("error") == "InvalidAttribute" and (c.get("message") or "").startswith("Recipe"))
    todo = [(s, c, lx) for s, c, lx in zip(srcs, comp, lexed) if "tokens" in lx and ("dump" in c or parser_error(c))]
    model = dr.pbatch([{"op": "ast", "tokens": to_file_tks(s, lx["tokens"])} for s, c, lx in todo])
    oks = [(s, c, lx, m) for (s, c, lx), m in zip(todo, model) if "dump" in c]
    relex = jv.pbatch([{"op": "lex", "src": c["formatted"]} for s, c, lx, m in oks])
    mism = 0
    stats = {"ast_files": len(srcs), "ast_compiling": len(oks), "ast_parser_errors": len(todo) - len(oks), "ast_item_kinds": {}, "ast_error_kinds": {}}
    for (s, c, lx), m in zip(todo, model):
        if "dump" in c:
            continue
        stats["ast_error_kinds"][c["error"]] = stats["ast_error_kinds"].get(c["error"], 0) + 1
        if "items" in m:
            mism += 1
            report.failure("c10-model-ast-accepts:%s" % c["error"], "the Lean parse_ast accepts a file parser.rs rejects (%s)" % c["error"],
                           {"op": "ast-model", "src": s, "correspondence": "parse_ast (vlib/c10.py ast_stream)", "impl": c.get("message")}, no_input=True)
    for (s, c, lx, m), rl in zip(oks, relex):
        replay = {"op": "ast-model", "src": s, "correspondence": "parse_ast / Display for Ast (vlib/c10.py ast_stream)"}
        if "items" not in m:
            mism += 1
            report.failure("c10-model-ast-rejects", "the Lean parse_ast rejects a file parser.rs accepts", dict(replay, model=m), no_input=True)
            continue
        for it in m["items"]:
            stats["ast_item_kinds"][it["kind"]] = stats["ast_item_kinds"].get(it["kind"], 0) + 1
        want = to_file_tks(c["formatted"], rl["tokens"]) if "tokens" in rl else None
        if m.get("printed") != want and re.search(r"\r(?!\n)", s):
            # a lone carriage return in a body line: printing it in front of the line feed makes a CRLF line end when the
            # text is lexed again - the recorded finding c10-lone-carriage-return-in-body, reported by the format stream
            stats["ast_lone_cr_skipped"] = stats.get("ast_lone_cr_skipped", 0) + 1
            continue
        if m.get("printed") != want:
            mism += 1
            mp, wp = m.get("printed") or [], want or []
            i = next((i for i, (a, b) in enumerate(zip(mp, wp)) if a != b), min(len(mp), len(wp)))
            report.failure("c10-model-ast-printer", "Lean Display-for-Ast and the formatter disagree on the printed tokens (first difference at token %d)" % i,
                           dict(replay, model=mp[max(0, i - 3):i + 4], impl=wp[max(0, i - 3):i + 4], formatted=c["formatted"]), no_input=True)
            continue
        if not m.get("reparse_same"):
            mism += 1
            report.failure("c10-model-ast-roundtrip", "the model's own file round trip failed", replay, no_input=True)
            continue
        got, flags, dup = model_summary(m["items"])
        if dup:
            continue
        want = ast_summary(c["dump"])
        for n_, r in got["recipes"].items():
            if r.pop("_docattr"):
                r["doc"] = want["recipes"].get(n_, {}).get("doc")
        bad_flags = {k: v for k, v in flags.items() if c["dump"]["settings"].get(k) != v}
        if got != want or bad_flags:
            mism += 1
            report.failure("c10-model-ast-items", "the items the Lean parse_ast returns do not match the JSON dump",
                           dict(replay, model=got, impl=want, flags=bad_flags), no_input=True)
    stats["ast_mismatches"] = mism
    return stats


def dump_of(r):
    return r.get("dump")


def strip_dump(d):
    """the parts of the dump that denote the justfile (everything but warnings and source location)"""
    d = dict(d)
    d.pop("warnings", None)
    d.pop("source", None)
    return d


def run(report):
    tier = report.tier
    thorough = tier == "thorough"
    C.build_jv()
    C.build_just()
    C.proof_stage(report, "C10", thorough=thorough)
    jv = C.Jv(timeout=600)
    rng = random.Random(report.seed ^ 0x10)
    srcs = []
    origin = []
    n_rand = 6000 if not thorough else 80000
    for i in range(n_rand):
        srcs.append(gen_justfile(report.seed, i))
        origin.append("grammar")
    for e in exhaustive_exprs(2 if not thorough else 3)[: (4000 if not thorough else 60000)]:
        srcs.append("v := 'q'\nx := %s\n" % e)
        origin.append("exhaustive-expr")
        srcs.append("v := 'q'\nr p=(%s): (d (%s))\n  echo {{ %s }}\nd a:\n" % (e, e, e))
        origin.append("exhaustive-expr-positions")
    repo = G.repo_sources()
    for s in repo:
        srcs.append(s)
        origin.append("repo")
        cur = s
        for _ in range(10 if not thorough else 80):
            cur = G.mutate(rng, cur if rng.random() < 0.5 else s)
            srcs.append(cur)
            origin.append("mutated")
    first = jv.pbatch([{"op": "compile", "src": s} for s in srcs], chunk=500)
    compiling = [(s, o, r) for s, o, r in zip(srcs, origin, first) if "dump" in r]
    second = jv.pbatch([{"op": "compile", "src": r["formatted"]} for _, _, r in compiling], chunk=500)
    stats = {"sources": len(srcs), "compiling": len(compiling), "by_origin": {}, "already_formatted": 0, "unstable_sources": 0}
    for s, o, r in zip(srcs, origin, first):
        k = stats["by_origin"].setdefault(o, {"total": 0, "compiling": 0})
        k["total"] += 1
        if "dump" in r:
            k["compiling"] += 1
        if "panic" in r or "abort" in r:
            report.failure("c10-crash", "compile/format crashed: %r" % (r,), {"op": "compile", "src": s})
    for (s, o, r), r2 in zip(compiling, second):
        f = r["formatted"]
        if f == s:
            stats["already_formatted"] += 1
        replay = {"op": "format", "src": s, "formatted": f, "origin": o}
        if "dump" not in r2:
            report.failure("c10-lone-carriage-return-in-body" if re.search(r"\r(?!\n)", s) else "c10-formatted-does-not-compile:%s" % r2.get("error", "?"), "the formatted justfile does not compile: %s" % (r2.get("message") or r2),
                           dict(replay, error=r2.get("rendered")))
            continue
        d1, d2 = strip_dump(r["dump"]), strip_dump(r2["dump"])
        if d1 != d2:
            diff = [k for k in d1 if d1.get(k) != d2.get(k)]
            sub = ""
            for k in diff:
                if isinstance(d1[k], dict):
                    sub = ",".join(sorted(x for x in set(d1[k]) | set(d2[k]) if d1[k].get(x) != d2[k].get(x)))[:80]
                    if k == "recipes":
                        # name the differing field
                        for x in d1[k]:
                            if x in d2[k] and d1[k][x] != d2[k][x]:
                                sub = ",".join(sorted(y for y in d1[k][x] if d1[k][x][y] != d2[k][x].get(y)))
                                break
                    elif k == "modules":
                        for x in d1[k]:
                            if x in d2[k] and d1[k][x] != d2[k][x]:
                                sub = ",".join(sorted(y for y in d1[k][x] if d1[k][x][y] != d2[k][x].get(y)))
                                break
            sig = "c10-meaning-changed:%s:%s" % (",".join(diff), sub)
            if re.search(r"\r(?!\n)", s) and diff == ["recipes"] and sub == "body":
                sig = "c10-lone-carriage-return-in-body"
            report.failure(sig, "formatting changed the justfile's meaning (JSON dump differs in %s: %s)" % (diff, sub),
                           dict(replay, before={k: d1[k] for k in diff}, after={k: d2[k] for k in diff}))
            continue
        if r2["formatted"] != f:
            sig = "c10-lone-carriage-return-in-body" if re.search(r"\r(?!\n)", s) else "c10-not-idempotent"
            report.failure(sig, "formatting the formatted text changes it again", dict(replay, again=r2["formatted"]))

    # ---- files: --fmt --check, --fmt, modules and imports (binary) -----------------------------------
    n_files = 160 if not thorough else 2000
    pick = [c for c in compiling if c[1] in ("grammar", "repo")]
    rng.shuffle(pick)
    fcases = []
    for s, o, r in pick[:n_files]:
        fcases.append({"kind": "as-is", "files": {"justfile": s}, "formatted": r["formatted"]})
        fcases.append({"kind": "formatted", "files": {"justfile": r["formatted"]}, "formatted": r["formatted"]})
        if "\n" in r["formatted"]:
            fcases.append({"kind": "formatted-crlf", "files": {"justfile": r["formatted"].replace("\n", "\r\n")}, "formatted": None})
            fcases.append({"kind": "formatted-no-final-newline", "files": {"justfile": r["formatted"].rstrip("\n")}, "formatted": r["formatted"]})
    # modules / imports / aliases into modules
    for i in range(30 if not thorough else 300):
        r2 = C.case_rng(report.seed, i, "c10m")
        modtext = "# in module\nbar:\n  echo bar\n\nbaz x='1':\n    echo {{x}}\n"
        root = []
        # (a comment separated from the `mod` / `import` by a blank line is a free comment, not documentation)
        root.append(r2.choice(["mod foo", "mod? foo", "mod foo 'foo.just'", "# module doc\nmod foo", "[group('mg')]\nmod foo", "[doc('d')]\nmod foo",
                               "# free comment\n\nmod foo", "# free comment\n\n[group('mg')]\nmod foo"]))
        root.append(r2.choice(["import 'imp.just'", "import? 'imp.just'", "import? 'missing.just'", "", "# free comment\n\nimport 'imp.just'"]))
        root.append(r2.choice(["alias b := foo::bar", "alias b := foo::baz", "[private]\nalias b := foo::bar", ""]))
        root.append(r2.choice(["bar:\n  echo rootbar", "top:\n  echo top", ""]))
        r2.shuffle(root)
        text = "\n".join(x for x in root if x) + "\n"
        fcases.append({"kind": "modules", "files": {"justfile": text, "foo.just": modtext, "imp.just": "imported:\n  echo imp\n"}, "formatted": None})

    # a `mod` statement with an explicit path that is also one of the places searched by default, while ANOTHER of those
    # places holds a different file: the path must survive formatting
    other = "other:\n  echo other\n"
    for stmt, files in [("mod foo 'foo.just'", {"foo.just": modtext, "foo/mod.just": other}),
                        ("mod foo 'foo/mod.just'", {"foo.just": other, "foo/mod.just": modtext}),
                        ("mod foo './foo.just'", {"foo.just": modtext, "foo/justfile": other}),
                        ("mod foo 'foo/justfile'", {"foo/justfile": modtext, "foo/.justfile": other}),
                        ("mod? foo 'foo.just'", {"foo/mod.just": other}),
                        ("mod? foo 'foo/mod.just'", {"foo.just": other}),
                        ("mod foo 'foo.just'", {"foo.just": modtext})]:
        for tail in ("", "\ntop:\n  echo top\n"):
            fcases.append({"kind": "module-paths", "files": dict({"justfile": stmt + "\n" + tail}, **files), "formatted": None})

    def run_file(c):
        with C.scratch("c10") as d:
            for rel, text in c["files"].items():
                os.makedirs(os.path.dirname(os.path.join(d, rel)), exist_ok=True)
                with open(os.path.join(d, rel), "wb") as f:
                    f.write(text.encode("utf-8"))
            path = os.path.join(d, "justfile")
            orig = open(path, "rb").read()
            out = {}
            env = {"JUST_UNSTABLE": "1"}
            rc, so, se = C.run_just(["--dump"], d, env=env)
            out["dump_rc"] = rc
            out["dump"] = so.decode("utf-8", "replace")
            out["dump_err"] = se.decode("utf-8", "replace")[-300:]
            rc, so, se = C.run_just(["--dump", "--dump-format", "json"], d, env=env)
            out["json"] = json.loads(so) if rc == 0 else None
            out["json_err"] = se.decode("utf-8", "replace")[-300:]
            rc, so, se = C.run_just(["--unstable", "--fmt", "--check"], d, env=env)
            out["check_rc"] = rc
            out["after_check"] = open(path, "rb").read() == orig
            rc, so, se = C.run_just(["--unstable", "--fmt"], d, env=env)
            out["fmt_rc"] = rc
            out["fmt_err"] = se.decode("utf-8", "replace")[-300:]
            out["after_fmt"] = open(path, "rb").read().decode("utf-8", "replace")
            rc, so, se = C.run_just(["--unstable", "--fmt", "--check"], d, env=env)
            out["check2_rc"] = rc
            rc, so, se = C.run_just(["--dump", "--dump-format", "json"], d, env=env)
            out["json2"] = json.loads(so) if rc == 0 else None
            out["json2_err"] = se.decode("utf-8", "replace")[-300:]
            return out

    fres = C.pmap(run_file, fcases)
    kinds = {}
    for c, o in zip(fcases, fres):
        kinds[c["kind"]] = kinds.get(c["kind"], 0) + 1
        replay = {"op": "files", "files": c["files"], "kind": c["kind"]}
        src = c["files"]["justfile"]
        if o["dump_rc"] != 0 and c["kind"] == "formatted-crlf":
            # (a backslash-newline inside a cooked string is not accepted with CRLF endings: not a compiling justfile)
            kinds["formatted-crlf-not-compiling"] = kinds.get("formatted-crlf-not-compiling", 0) + 1
            continue
        if o["dump_rc"] != 0:
            report.failure("c10-files-generator", "file case does not compile: " + o["dump_err"], replay, no_input=True)
            continue
        fixed = (o["dump"] == src)
        if (o["check_rc"] == 0) != fixed:
            report.failure("c10-check-exit:%s" % c["kind"], "--fmt --check exited %r on a file that is %sa fixed point of the formatter" % (o["check_rc"], "" if fixed else "not "),
                           dict(replay, dump=o["dump"]))
            continue
        if not o["after_check"]:
            report.failure("c10-check-modified", "--fmt --check modified the file", replay)
            continue
        if o["fmt_rc"] != 0 or o["after_fmt"] != o["dump"]:
            report.failure("c10-fmt-result:%s" % c["kind"], "--fmt did not leave the formatter's output in the file (rc=%r) %s" % (o["fmt_rc"], o["fmt_err"]),
                           dict(replay, dump=o["dump"], after=o["after_fmt"]))
            continue
        if o["check2_rc"] != 0:
            report.failure("c10-fmt-not-fixed-point", "--fmt --check fails right after --fmt", dict(replay, after=o["after_fmt"]))
            continue
        if o["json"] is None:
            report.failure("c10-files-json-dump", "--dump succeeds but --dump --dump-format json fails: " + o.get("json_err", ""), replay, no_input=True)
            continue
        if o["json2"] is None:
            report.failure("c10-formatted-does-not-compile:files", "after --fmt the justfile does not compile: " + o["json2_err"], dict(replay, after=o["after_fmt"]))
            continue
        j1, j2 = strip_dump(o["json"]), strip_dump(o["json2"])
        if j1 != j2:
            diff = [k for k in j1 if j1.get(k) != j2.get(k)]
            sub = ""
            if "modules" in diff:
                for x in j1["modules"]:
                    if x in j2["modules"] and j1["modules"][x] != j2["modules"][x]:
                        sub = ",".join(sorted(y for y in j1["modules"][x] if j1["modules"][x][y] != j2["modules"][x].get(y)))
            report.failure("c10-meaning-changed:%s:%s" % (",".join(diff), sub), "--fmt changed the justfile's meaning (JSON dump differs in %s %s)" % (diff, sub),
                           dict(replay, after=o["after_fmt"]))
    stats["file_cases"] = kinds
    stats.update(model_stream(report, jv, C.Driver(), tier))
    stats.update(header_stream(report, jv, C.Driver(), tier))
    stats.update(item_stream(report, jv, C.Driver(), tier))
    stats.update(ast_stream(report, jv, C.Driver(), tier, [s for s, o, r in zip(srcs, origin, first) if o in ('grammar', 'repo', 'mutated')]))
    report.coverage.update({"inputs": len(srcs) + len(fcases)})
    report.coverage.update(stats)
    report.assumptions += [
        "`denotes the same justfile` is equality of the JSON dumps (without the warnings list and the source path)",
        "the theorem covers the expression language at token level; items (recipes, settings, aliases, modules) are covered by the statement oracle on generated files, not by a theorem",
        "jv compiles a single source file; modules and imports go through the binary",
    ]
    C.finish(report)


def replay(report, path):
    body = json.load(open(path))
    rp = body["replay"]
    C.build_jv()
    report.coverage.update({"obligations": 1, "discharged": 1, "checker_cmd": "replay", "trusted_base": []})
    if "src" in rp:
        jv = C.Jv()
        r = jv.batch([{"op": "compile", "src": rp["src"]}])[0]
        print(r.get("formatted"))
        if "dump" in r:
            r2 = jv.batch([{"op": "compile", "src": r["formatted"]}])[0]
            if "dump" not in r2 or strip_dump(r2["dump"]) != strip_dump(r["dump"]) or r2["formatted"] != r["formatted"]:
                report.failure(body["signature"], "replay still fails", rp)
    C.finish(report)
