"""C13 - fatal signals: wait for the running child, then stop; never orphan it.

Deterministic schedules through the hooks (signal-processed marker, spawn gate) and the fake
shell's block/trap actions: no sleeps are used for synchronisation, only polling of files."""
import json
import os
import signal
import subprocess
import time

from . import common as C

SIGS = {"hup": signal.SIGHUP, "int": signal.SIGINT, "quit": signal.SIGQUIT, "term": signal.SIGTERM}
SIGNUM = {"hup": 1, "int": 2, "quit": 3, "term": 15}


def templates():
    """Each template: justfile text, argv, ordered command list [(key, infallible)]."""
    sh = 'set shell := ["%s", "-c"]\n' % C.VSH
    out = []
    for flags in ([0, 0, 0], [1, 0, 0], [0, 1, 0], [0, 0, 1]):
        lines = "".join("  %s[T0.%d]\n" % ("-" if f else "", i) for i, f in enumerate(flags))
        out.append({"name": "lines" + "".join(map(str, flags)), "justfile": sh + "r0:\n" + lines, "argv": ["r0"],
                    "cmds": [("[T0.%d]" % i, bool(f)) for i, f in enumerate(flags)]})
    jf = (sh + "a00 := `[B0]`\n\nr0: d1 && d2\n  [T0.0] {{`[B1]`}}\n  [T0.1]\n\nd1:\n  #!%s\n  [S1.0]\n\nd2:\n  [T2.0]\n" % C.VSH)
    out.append({"name": "mixed", "justfile": jf, "argv": ["r0", "d2"],
                "cmds": [("[B0]", False), ("[S1.0]", False), ("[B1]", False), ("[T0.0]", False), ("[T0.1]", False),
                         ("[T2.0]", False), ("[T2.0]", False)]})
    # the final d2 on the command line runs again (subsequents use a fresh memo)
    # other entry points that execute commands: --choose, --command, --evaluate
    lines = "".join("  [T0.%d]\n" % i for i in range(2))
    out.append({"name": "choose", "justfile": sh + "r0:\n" + lines, "argv": ["--choose", "--chooser", "CHOOSER"],
                "plan_extra": "CHOOSER=out:" + C.hexs("r0\n"),
                # (the chooser is a command like the others since it is run through the signal handler, 20b33cb)
                "cmds": [("CHOOSER", False), ("[T0.0]", False), ("[T0.1]", False)]})
    out.append({"name": "command", "justfile": sh + "a00 := `[B0]`\n\nr0:\n  [T0.0]\n",
                "argv": ["--command", C.VSH, "-c", "[C0]"], "cmds": [("[B0]", False), ("[C0]", False)]})
    out.append({"name": "evaluate", "justfile": sh + "a00 := `[B0]`\na01 := `[B1]`\n\nr0:\n  [T0.0]\n",
                "argv": ["--evaluate"], "cmds": [("[B0]", False), ("[B1]", False)]})
    return out


def schedules(tier):
    out = []
    for t in templates():
        n = len(t["cmds"])
        for k in range(n):
            for sig in SIGS:
                out.append({"template": t["name"], "when": "idle", "k": k, "sig": sig, "reaction": None})
                for reaction in ("exit0", "exit3", "dies"):
                    if t["name"] == "mixed" and tier == "quick" and sig in ("hup", "quit") and reaction == "exit3":
                        continue
                    out.append({"template": t["name"], "when": "during", "k": k, "sig": sig, "reaction": reaction})
            # two signals while one command runs: SIGTERM after another fatal signal is still forwarded, and the first
            # signal is the one just exits with
            if tier != "quick" or k == 0:
                for first in ("hup", "int", "quit"):
                    for reaction in ("exit0", "exit3"):
                        out.append({"template": t["name"], "when": "during", "k": k, "sig": first, "sig2": "term", "reaction": reaction})
    return out


def wait_for(pred, timeout=10.0):
    t0 = time.time()
    while not pred():
        if time.time() - t0 > timeout:
            return False
        time.sleep(0.001)
    return True


def model_steps(t, s):
    steps = []
    for i in range(s["k"]):
        steps += ["spawn", {"finish": {"st": "ok"}}]
    g = {"signal": {"g": s["sig"]}}
    if s["when"] == "idle":
        steps.append(g)
    else:
        st = {"exit0": "ok", "exit3": {"code": {"n": 3}}, "dies": {"signal": {"n": SIGNUM[s["sig"]]}}}[s["reaction"]]
        steps += ["spawn", g] + ([{"signal": {"g": s["sig2"]}}] if s.get("sig2") else []) + [{"finish": {"st": st}}]
    for i in range(len(t["cmds"])):
        steps += ["spawn", {"finish": {"st": "ok"}}]
    return steps


def run_schedule(t, s):
    with C.scratch("c13") as d:
        open(os.path.join(d, "justfile"), "w").write(t["justfile"])
        logp = os.path.join(d, "vsh.log")
        marker = os.path.join(d, "marker")
        bf = os.path.join(d, "blockfile")
        rf = os.path.join(d, "report")
        gate = os.path.join(d, "gate")
        env = dict(C.BASE_ENV)
        env.update({"HOME": d, "TMPDIR": d, "VSH_LOG": logp, "JUST_VERIF_SIGNAL_MARKER": marker})
        key = t["cmds"][s["k"]][0]
        # the targeted command must be the k-th *occurrence* in the sequence; keys repeat only in "mixed"
        occurrence = [c[0] for c in t["cmds"][:s["k"]]].count(key)
        if s["when"] == "during":
            acts = []
            if (s["sig"] == "term" or s.get("sig2") == "term") and s["reaction"] != "dies":
                acts.append("trap:15")
            acts.append("block:" + bf)
            acts.append("report:" + rf)
            acts.append("exit:3" if s["reaction"] == "exit3" else "exit:0")
            if occurrence == 0:
                env["VSH_PLAN"] = "%s=%s" % (key, ",".join(acts))
            else:
                return None  # second occurrence of the same text cannot be targeted by the plan
        else:
            os.makedirs(gate)
            env["JUST_VERIF_SPAWN_GATE"] = gate
            for i in range(s["k"]):
                open(os.path.join(gate, "release.%d" % i), "w").close()
        if t.get("plan_extra"):
            env["VSH_PLAN"] = (env.get("VSH_PLAN", "") + ";" + t["plan_extra"]).strip(";")
        p = subprocess.Popen([C.JUST] + t["argv"], cwd=d, env=env, stdin=subprocess.DEVNULL,
                             stdout=subprocess.PIPE, stderr=subprocess.PIPE)
        problem = None
        try:
            if s["when"] == "during":
                if not wait_for(lambda: os.path.exists(bf + ".started")):
                    problem = "command %d never started" % s["k"]
                else:
                    os.kill(p.pid, SIGS[s["sig"]])
                    if not wait_for(lambda: os.path.exists(marker) and os.path.getsize(marker) > 0):
                        problem = "signal was not processed by the handler (no marker)"
                    if s.get("sig2") and not problem:
                        os.kill(p.pid, SIGS[s["sig2"]])
                        if not wait_for(lambda: len(open(marker).read().split("\n")) > 2):
                            problem = "second signal was not processed by the handler (no marker)"
                    entries = C.read_vsh_log(logp)
                    child = entries[-1]["pid"] if entries else None
                    if s["reaction"] == "dies" and s["sig"] != "term" and child:
                        try:
                            os.kill(child, SIGS[s["sig"]])
                        except ProcessLookupError:
                            pass
                    open(bf, "w").close()
            else:
                if not wait_for(lambda: os.path.exists(os.path.join(gate, "ready.%d" % s["k"]))):
                    problem = "spawn %d was never announced" % s["k"]
                else:
                    os.kill(p.pid, SIGS[s["sig"]])
            try:
                out, err = p.communicate(timeout=15)
                rc = p.returncode
            except subprocess.TimeoutExpired:
                p.kill()
                out, err = p.communicate()
                rc = None
                problem = problem or "just did not exit"
        finally:
            if p.poll() is None:
                p.kill()
        entries = C.read_vsh_log(logp)
        spawned = []
        for e in entries:
            if e["script"] is not None:
                spawned.append([l for l in e["script"].split("\n") if l.startswith("[")][0])
            else:
                spawned.append(e["argv"][2].split(" ")[0])
        orphans = [e["pid"] for e in entries if os.path.exists("/proc/%d" % e["pid"]) and
                   open("/proc/%d/stat" % e["pid"]).read().split()[2] != "Z"]
        for pid in orphans:
            try:
                os.kill(pid, signal.SIGKILL)
            except ProcessLookupError:
                pass
        report = open(rf).read().split() if os.path.exists(rf) else None
        return {"exit": rc, "spawned": spawned, "orphans": orphans, "child_saw": report, "problem": problem,
                "stderr": err.decode("utf-8", "replace")[-800:]}


def expected(t, s):
    """The statement of C13 for this schedule (None for `-` lines, which are outside the claim)."""
    n = SIGNUM[s["sig"]]
    keys = [c[0] for c in t["cmds"]]
    if s["when"] == "idle":
        return {"exit": 128 + n, "spawned": keys[:s["k"]]}
    if t["cmds"][s["k"]][1]:
        return None
    code = {"exit0": 128 + n, "exit3": 3, "dies": 128 + n}[s["reaction"]]
    # (the command of `--command` is a command just started like any other: its failure status or 128+signal is just's
    # exit status; an earlier version of this check accepted the generic exit status 1 here - that was the check
    # giving way to a defect, repaired in /repo since)
    return {"exit": code, "spawned": keys[:s["k"] + 1]}


def probe_unguarded_child(kind):
    """The chooser of --choose and the editor of --edit are commands just starts: a SIGTERM that arrives while one runs must
    not make just exit before it has ended (and must be forwarded).  Returns None or (signature, what, replay)."""
    import signal
    import time
    with C.scratch("c13u") as d:
        gate = os.path.join(d, "gate")
        rep = os.path.join(d, "rep")
        sh = 'set shell := ["%s", "-c"]\n' % C.VSH
        env = dict(C.BASE_ENV)
        env.update({"HOME": d, "TMPDIR": d, "VSH_LOG": os.path.join(d, "vsh.log")})
        if kind == "choose":
            text = sh + "r0:\n  [T0.0]\n"
            argv = ["--choose", "--chooser", "CHOOSER"]
            env["VSH_PLAN"] = "CHOOSER=trap:15,block:%s,report:%s,out:%s" % (gate, rep, C.hexs("r0\n"))
        else:
            text = sh + "# [ED]\nr0:\n  [T0.0]\n"
            argv = ["--edit"]
            env["VISUAL"] = C.VSH
            env["VSH_PLAN"] = "[ED]=trap:15,block:%s,report:%s" % (gate, rep)
        open(os.path.join(d, "justfile"), "w").write(text)
        p = subprocess.Popen([C.JUST] + argv, cwd=d, env=env, stdin=subprocess.DEVNULL, stdout=subprocess.PIPE, stderr=subprocess.PIPE)
        t0 = time.time()
        while not os.path.exists(gate + ".started") and time.time() - t0 < 10 and p.poll() is None:
            time.sleep(0.005)
        if not os.path.exists(gate + ".started"):
            p.kill()
            return ("c13-probe-broken:%s" % kind, "the %s child did not start" % kind, {"kind": kind})
        p.send_signal(signal.SIGTERM)
        t1 = time.time()
        while p.poll() is None and time.time() - t1 < 1.0:
            time.sleep(0.01)
        early = p.poll() is not None          # just is gone although its child still waits at the gate
        open(gate, "w").close()
        try:
            p.wait(timeout=10)
        except subprocess.TimeoutExpired:
            p.kill()
        time.sleep(0.05)
        forwarded = os.path.exists(rep) and "15" in open(rep).read().split()
        replay = {"kind": kind, "justfile": text, "argv": argv, "observed": {"exited_while_child_ran": early, "sigterm_forwarded": forwarded,
                                                                                "exit": p.returncode}}
        if early:
            return ("c13-orphan:%s" % kind, "just exited on SIGTERM while the %s it had started was still running" % kind, replay)
        if not forwarded:
            return ("c13-term-not-forwarded:%s" % kind, "SIGTERM was not forwarded to the running %s" % kind, replay)
        return None


def probe_signal_race(n):
    """A signal that arrives just before the running command ends (`kill -TERM $PPID` as the command itself) must still stop
    the run.  Statistical: the window is well under a millisecond.  Returns None or (signature, what, replay)."""
    with C.scratch("c13r") as d:
        text = "r:\n    @kill -TERM $PPID\n    @echo SECOND-LINE-RAN\n"
        open(os.path.join(d, "justfile"), "w").write(text)
        env = dict(C.BASE_ENV)
        env.update({"HOME": d, "TMPDIR": d})
        bad = []
        for i in range(n):
            p = subprocess.run([C.JUST, "--shell", "/bin/sh", "--shell-arg", "-cu", "r"], cwd=d, env=env, stdin=subprocess.DEVNULL,
                               stdout=subprocess.PIPE, stderr=subprocess.PIPE)
            if b"SECOND-LINE-RAN" in p.stdout or p.returncode == 0:
                bad.append({"run": i, "exit": p.returncode, "second_line_ran": b"SECOND-LINE-RAN" in p.stdout})
        if bad:
            return ("c13-signal-just-before-command-ends", "a SIGTERM delivered just before the running command ended was missed in %d of %d runs: "
                    "the next line ran" % (len(bad), n), {"justfile": text, "argv": ["r"], "runs": n, "missed": bad[:5]})
        return None


def run(report):
    tier = report.tier
    just, bt = C.build_just()
    C.proof_stage(report, "C13", thorough=(tier == "thorough"))
    for kind in ("choose", "edit"):
        f = probe_unguarded_child(kind)
        if f:
            report.failure(f[0], f[1], f[2])
    f = probe_signal_race(150 if tier == "quick" else 1500)
    if f:
        report.failure(f[0], f[1], f[2])
    drv = C.Driver()
    tmpl = {t["name"]: t for t in templates()}
    scheds = schedules(tier)
    reqs = [{"op": "signals", "record": True, "cmds": [{"infallible": c[1]} for c in tmpl[s["template"]]["cmds"]],
             "steps": model_steps(tmpl[s["template"]], s)} for s in scheds]
    model = drv.batch(reqs)
    model_old = drv.batch([dict(r, record=False) for r in reqs])
    results = C.pmap(lambda s: run_schedule(tmpl[s["template"]], s), scheds, workers=C.NCPU)
    stats = {"schedules": 0, "idle": 0, "during": 0, "infallible_outside_claim": 0, "untargetable": 0,
             "sigterm_forward_checked": 0, "by_signal": {k: 0 for k in SIGS}}
    samples = []
    distinct = set()
    for s, m, mo, r in zip(scheds, model, model_old, results):
        t = tmpl[s["template"]]
        if r is None:
            stats["untargetable"] += 1
            continue
        stats["schedules"] += 1
        stats[s["when"]] += 1
        stats["by_signal"][s["sig"]] += 1
        distinct.add(json.dumps([s, r["exit"], r["spawned"]], sort_keys=True))
        replay = {"schedule": s, "justfile": t["justfile"], "argv": t["argv"], "commands": t["cmds"], "observed": r}
        if r["problem"]:
            report.failure("c13-protocol:%s" % r["problem"].split(" ")[0], "schedule could not be completed: " + r["problem"], replay)
            continue
        if r["orphans"]:
            report.failure("c13-orphan", "just exited leaving a command it started running", replay)
            continue
        want = expected(t, s)
        if want is None:
            stats["infallible_outside_claim"] += 1
        else:
            replay["expected"] = want
            if r["spawned"] != want["spawned"]:
                if len(r["spawned"]) > len(want["spawned"]):
                    sig = "c13-spawn-after-signal:%s" % ("child-ok" if s["reaction"] == "exit0" else s["reaction"] or "idle")
                    report.failure(sig, "a further command was started after the signal had been processed (%s, %s)" % (s["when"], s["reaction"]), replay)
                else:
                    report.failure("c13-missing-spawn", "fewer commands ran than before the signal", replay)
                continue
            if want["exit"] == "nonzero" and r["exit"] not in (0, None):
                want["exit"] = r["exit"]
            if r["exit"] != want["exit"]:
                report.failure("c13-exit-code:%s" % (s["reaction"] or "idle"), "wrong exit status after the signal: got %s want %s" % (r["exit"], want["exit"]), replay)
                continue
            if s["when"] == "during" and (s["sig"] == "term" or s.get("sig2") == "term") and s["reaction"] != "dies":
                stats["sigterm_forward_checked"] += 1
                if r["child_saw"] != ["15"]:
                    report.failure("c13-term-not-forwarded", "SIGTERM was not forwarded to the running command", replay)
                    continue
            if s["when"] == "during" and s["sig"] != "term" and not s.get("sig2") and s["reaction"] != "dies" and r["child_saw"] not in ([], None):
                report.failure("c13-unexpected-forward", "a signal other than SIGTERM was forwarded", replay)
                continue
        # correspondence with the Lean transition system (record = true is what the property needs)
        mexit = m["exited"]
        if len(r["spawned"]) != min(m["spawned"], len(t["cmds"])) or r["exit"] != mexit:
            report.failure("c13-model", "Lean transition system and implementation disagree (property oracle holds)",
                           dict(replay, correspondence="C13 schedules vs Just.Signals.run (record=true)",
                                model=m, model_unrecorded=mo), no_input=True)
        # the model's count of forwarded signals against the SIGTERMs the (trapping, reporting) child saw
        if s["when"] == "during" and s["reaction"] != "dies" and r["child_saw"] is not None and len(r["child_saw"]) != m["forwarded"]:
            report.failure("c13-model-forwarded", "the Lean transition system forwards %d signal(s), the running command saw %s" % (m["forwarded"], r["child_saw"]),
                           dict(replay, correspondence="C13 forwarded signals vs Just.Signals.step", model=m), no_input=True)
        if len(samples) < 4 and s["when"] == "during" and s["reaction"] == "exit0":
            samples.append({"schedule": s, "observed": {"exit": r["exit"], "spawned": r["spawned"]}})
    report.coverage.update({
        "evaluations": stats["schedules"],
        "distinct_nontrivial": len(distinct),
        "rule": "forced schedules: 8 program templates (lines with/without `-`, backtick in assignment and interpolation, script dependency, subsequent, second command-line recipe; entry through --choose, --command and --evaluate) x every command index x delivery {while it runs, idle right before it} x {HUP,INT,QUIT,TERM} x child reaction {exit 0, exit 3, dies from the signal}, plus SIGTERM following HUP / INT / QUIT while the same command runs (still forwarded; the first signal decides the exit status); distinct = distinct (schedule, exit, spawned)",
        "samples": samples,
        "exhaustive": True,
        "traces_validated_against_impl": stats["schedules"],
        "stats": stats,
        "build_s": round(bt, 1),
    })
    report.assumptions += [
        "kernel signal delivery, the self-pipe and the handler thread are trusted; `arrives` = processed by the handler thread (marker hook)",
        "HUP/INT/QUIT are sent to just only; `dies from the signal` is produced by the harness sending the same signal to the child",
        "`-` lines are outside the claim: compared with the model only",
    ]


def replay(report, path):
    body = json.load(open(path))
    C.build_just()
    rp = body["replay"]
    t = {"justfile": rp["justfile"], "argv": rp["argv"], "cmds": [tuple(c) for c in rp["commands"]], "name": "replay"}
    r = run_schedule(t, rp["schedule"])
    print(json.dumps({"observed": r, "expected": rp.get("expected")}, indent=1))
    report.coverage.update({"obligations": 1, "discharged": 1, "checker_cmd": "replay", "trusted_base": []})
    want = rp.get("expected")
    if want and r and (r["exit"] != want["exit"] or r["spawned"] != want["spawned"]):
        report.failure(body["signature"], "replay still fails", rp)
