"""C05 - command-line words bind to recipes and parameters as documented."""
import itertools
import json
import os
import re
import subprocess

from . import common as C

KINDS = ["req", "def", "defref", "defbt", "plus", "star", "stardef"]


def valid_sig(sig):
    """analyzer rules: variadic last; no required parameter after a defaulted one"""
    seen_default = False
    for i, k in enumerate(sig):
        if k in ("plus", "star", "stardef") and i != len(sig) - 1:
            return False
        if k in ("def", "defref", "defbt", "stardef"):
            seen_default = True
        elif k == "req" and seen_default:
            return False
        elif k == "plus" and seen_default:
            return False
    return True


def all_sigs(maxlen=3):
    out = []
    for n in range(maxlen + 1):
        for sig in itertools.product(KINDS, repeat=n):
            if "defref" in sig and sig.index("defref") == 0:
                continue
            if valid_sig(sig):
                out.append(list(sig))
    return out


def param_model(k, i):
    if k == "req":
        return {"kind": "singular", "default": None}
    if k == "def":
        return {"kind": "singular", "default": [{"lit": {"s": "d%d" % i}}]}
    if k == "defref":
        return {"kind": "singular", "default": [{"lit": {"s": "<"}}, {"ref": {"i": 0}}, {"lit": {"s": ">"}}]}
    if k == "defbt":
        # a backtick default: the fake shell answers "bt"; it must only run when the word is omitted
        return {"kind": "singular", "default": [{"lit": {"s": "bt"}}]}
    if k == "plus":
        return {"kind": "plus", "default": None}
    if k == "star":
        return {"kind": "star", "default": None}
    return {"kind": "star", "default": [{"lit": {"s": "sd"}}]}


def param_text(k, i):
    n = "p%d" % i
    if k == "req":
        return n
    if k == "def":
        return "%s='d%d'" % (n, i)
    if k == "defref":
        return "%s=('<' + p0 + '>')" % n
    if k == "defbt":
        return "%s=`[BD]`" % n
    if k == "plus":
        return "+" + n
    if k == "star":
        return "*" + n
    return "*%s='sd'" % n


def recipe_text(name, rid, sig):
    head = name + "".join(" " + param_text(k, i) for i, k in enumerate(sig)) + ":"
    body = "  [R%s]|" % rid + "".join("{{p%d}}|" % i for i in range(len(sig)))
    return head + "\n" + body + "\n"


class Tree:
    """A module tree: root justfile, m.just (mod m), n.just (mod n inside m)."""

    def __init__(self, rng, sigs):
        self.files = {}
        self.model = None
        self.kinds = {}
        names = ["r1", "r2", "r3", "build", "m", "n", "x"]
        shell = 'set shell := ["%s", "-c"]\n' % C.VSH

        def module(prefix, depth):
            nrec = rng.choice([0, 1, 2, 3]) if depth else rng.choice([1, 2, 3, 4])
            recs = []
            used = set()
            text = shell
            if depth == 0:
                # (private variables - underscore name or [private] - can be overridden like any other)
                text += "export v1 := 'one'\nexport var-2 := 'two'\nexport _pv := 'three'\n[private]\nexport pv2 := 'four'\n"
            submods = []
            if depth == 0 and rng.random() < 0.7:
                submods.append("m")
            if depth == 1 and rng.random() < 0.6:
                submods.append("n")
            for sm in submods:
                text += "mod %s\n" % sm
                used.add(sm)
            text += "\n"
            for _ in range(nrec):
                nm = rng.choice([x for x in names if x not in used] or ["zz"])
                if nm in used:
                    continue
                used.add(nm)
                sig = rng.choice(sigs)
                rid = prefix + nm
                recs.append((nm, {"id": rid, "name": nm, "params": [param_model(k, i) for i, k in enumerate(sig)]}, sig))
                self.kinds[rid] = sig
                text += recipe_text(nm, rid, sig) + "\n"
            aliases = []
            if recs and rng.random() < 0.4:
                an = "al"
                if an not in used:
                    tgt = rng.choice(recs)
                    text += "alias %s := %s\n" % (an, tgt[0])
                    aliases.append((an, tgt[1]))
            mods = []
            for sm in submods:
                mods.append((sm, module(prefix + sm + ".", depth + 1)))
            # aliases whose target lives in a submodule (one or two levels down): `just [mod::]ald args` binds like the target
            for an, hops in (("ald", 1), ("ald2", 2)):
                if an in used or rng.random() > 0.5:
                    continue
                path, cur = [], {"modules": [[n_, m_] for n_, m_ in mods]}
                for _ in range(hops):
                    if not cur["modules"]:
                        cur = None
                        break
                    n_, cur = rng.choice(cur["modules"])
                    path.append(n_)
                own = [r_ for r_ in (cur["recipes"] if cur else []) if not r_[0].startswith("al")]
                if own:
                    tn, tsig = rng.choice(own)
                    text += "alias %s := %s::%s\n" % (an, "::".join(path), tn)
                    aliases.append((an, tsig))
                    used.add(an)
            fname = "justfile" if depth == 0 else prefix.rstrip(".").split(".")[-1] + ".just"
            self.files[fname] = text
            return {"recipes": [[n_, s_] for n_, s_, _ in recs] + [[a, s_] for a, s_ in aliases],
                    "modules": [[n_, m_] for n_, m_ in mods],
                    "default": recs[0][1] if recs else None, "hasRecipes": bool(recs)}

        self.model = module("", 0)
        self.variables = ["v1", "var-2", "_pv", "pv2"]

    def write(self, d):
        for f, t in self.files.items():
            open(os.path.join(d, f), "w").write(t)


WORDS = ["r1", "r2", "r3", "build", "m", "n", "x", "al", "ald", "ald2", "m::ald", "a", "b", "", "a=b", "=x", "v1=ov", "var-2=o=p", "zz=1", "m::r1",
         "m::n::r1", "m::n", "m::", "::m", "m:::r1", "m:r1", "x::y", "n::r1", "d/x", "a b", "-", "--flag", "r1 ", "R1", "1a=2",
         "v1=a/b", "v1=/", "var-2=../x/", "zz=p/q", "v1=.", "v1=", "v1=m::r1", "v1=r1", "_pv=o", "pv2=z/w", "_pv=", "_zz=1"]


def is_override(w):
    return re.match(r"^[A-Za-z_][A-Za-z0-9_-]*=", w) is not None


def classify_error(stderr):
    pats = [("does not contain recipe", "unknownRecipe"), ("does not contain submodule", "unknownSubmodule"),
            ("Expected submodule at", "expectedSubmodule"), ("but takes", "argCount"), ("but only takes", "argCount"),
            ("cannot be used as default recipe", "defaultRequiresArgs"), ("contains no recipes", "noRecipes"),
            ("contains no default recipe", "noDefault"), ("overridden on the command line but not present", "UnknownOverrides")]
    for p, k in pats:
        if p in stderr:
            return k
    return "other:" + stderr[:200]


def model_error(e):
    if isinstance(e, str):
        return e
    return list(e.keys())[0]


def run_case(arg):
    tree, words = arg
    with C.scratch("c05") as d:
        tree.write(d)
        logp = os.path.join(d, "vsh.log")
        env = dict(C.BASE_ENV)
        env.update({"HOME": d, "TMPDIR": d, "VSH_LOG": logp, "VSH_PLAN": "[BD]=out:" + C.hexs("bt")})
        p = subprocess.run([C.JUST] + words, cwd=d, env=env, stdin=subprocess.DEVNULL, stdout=subprocess.PIPE,
                           stderr=subprocess.PIPE)
        entries = C.read_vsh_log(logp)
        groups = []
        envs = []
        bts = 0
        for e in entries:
            cmd = e["argv"][2]
            if cmd == "[BD]":
                bts += 1
                continue
            m = re.match(r"\[R([^\]]*)\]\|(.*)$", cmd, re.S)
            if m and (m.group(2) == "" or m.group(2).endswith("|")):
                groups.append({"id": m.group(1), "values": m.group(2).split("|")[:-1]})
            else:
                groups.append({"id": "?", "values": [cmd]})
            envs.append({k: e["env"].get(k) for k in ("v1", "var-2", "_pv", "pv2")})
        return {"rc": p.returncode, "groups": groups, "envs": envs, "default_backticks": bts, "stderr": p.stderr.decode("utf-8", "replace"), "raw": [e["argv"][2] for e in entries]}


def parse_values(cmd, nparams):
    return cmd


MODS = ["", "alpha", "beta", "util", "alpha::util", "beta::util", "alpha::beta"]


def module_files():
    """Seven modules whose names repeat at different places of the tree, each with a variable of its own and the same
    recipe `show p q=mv`: an omitted `q` is the value of the variable of THAT module."""
    shell = 'set shell := ["%s", "-c"]\n' % C.VSH
    body = lambda m: "mv := 'var-of-%s'\n\nshow p q=mv:\n  [M %s|{{p}}|{{q}}]\n" % (m or "root", m)
    return {"justfile": shell + "mod alpha 'alpha.just'\nmod beta 'beta.just'\nmod util 'root_util.just'\n\n" + body(""),
            "alpha.just": shell + "mod util 'alpha_util.just'\nmod beta 'alpha_beta.just'\n\n" + body("alpha"),
            "beta.just": shell + "mod util 'beta_util.just'\n\n" + body("beta"),
            "root_util.just": shell + body("util"), "alpha_util.just": shell + body("alpha::util"),
            "beta_util.just": shell + body("beta::util"), "alpha_beta.just": shell + body("alpha::beta")}


def run_module_defaults(invs):
    with C.scratch("c05m") as d:
        for name, text in module_files().items():
            open(os.path.join(d, name), "w").write(text)
        logp = os.path.join(d, "vsh.log")
        env = dict(C.BASE_ENV)
        env.update({"HOME": d, "TMPDIR": d, "VSH_LOG": logp})
        argv = []
        for m, form, words in invs:
            path = (m.split("::") if m else []) + ["show"]
            argv += ([" ".join(path)] if False else (path if form == "spaced" else ["::".join(path)])) + words
        p = subprocess.run([C.JUST] + argv, cwd=d, env=env, stdin=subprocess.DEVNULL, stdout=subprocess.PIPE, stderr=subprocess.PIPE, timeout=30)
        got = [e["argv"][2][3:-1].split("|") for e in C.read_vsh_log(logp) if len(e["argv"]) > 2 and e["argv"][2].startswith("[M ")]
        return {"argv": argv, "rc": p.returncode, "ran": got, "stderr": p.stderr.decode("utf-8", "replace")[-300:]}


def run(report):
    tier = report.tier
    just, bt = C.build_just()
    C.proof_stage(report, "C05", thorough=(tier == "thorough"))
    drv = C.Driver()
    sigs = all_sigs(3)
    cases = []
    # 1. exhaustive: every valid signature with <=3 parameters x argument counts 0..5, alone and followed by a second recipe
    shell = 'set shell := ["%s", "-c"]\n' % C.VSH
    for sig in sigs:
        t = Tree.__new__(Tree)
        t.files = {"justfile": shell + "export v1 := 'one'\n\n" + recipe_text("r1", "r1", sig) + "\n" + recipe_text("r2", "r2", ["req"]) + "\n"}
        t.model = {"recipes": [["r1", {"id": "r1", "name": "r1", "params": [param_model(k, i) for i, k in enumerate(sig)]}],
                               ["r2", {"id": "r2", "name": "r2", "params": [param_model("req", 0)]}]],
                   "modules": [], "default": {"id": "r1", "name": "r1", "params": [param_model(k, i) for i, k in enumerate(sig)]}}
        t.variables = ["v1"]
        t.kinds = {"r1": sig, "r2": ["req"]}
        for n in range(6):
            args = ["w%d" % i for i in range(n)]
            cases.append((t, ["r1"] + args))
            cases.append((t, ["r1"] + args + ["r2", "z"]))
            cases.append((t, args))  # default recipe with the words as arguments (first word is then a recipe name lookup)
            if n:
                cases.append((t, ["v1=x", "r1"] + args[:-1] + ["r2"]))
            # empty words are words: one in each position, two in a row, all empty
            for k in range(n):
                cases.append((t, ["r1"] + [("" if i == k else a) for i, a in enumerate(args)]))
            if n >= 2:
                cases.append((t, ["r1"] + [""] * n))
                cases.append((t, ["r1"] + args[:-2] + ["", ""]))
        # the same recipe twice with argument lists that differ only in where the words are cut: two invocations
        if len(sig) == 2 and all(k in ("req", "def", "defref", "defbt") for k in sig):
            cases.append((t, ["r1", "a b", "c", "r1", "a", "b c"]))
            cases.append((t, ["r1", "a b", "c", "r1", "a b", "c", "r1", "a", "b c"]))
        if sig and sig[-1] in ("plus", "star", "stardef"):
            lead = ["q%d" % i for i in range(len(sig) - 1)]
            cases.append((t, ["r1"] + lead + ["a b", "r2", "z", "r1"] + lead + ["a", "b"]))
    n_exh = len(cases)
    # 2. random module trees x adversarial word vectors
    n = 1500 if tier == "quick" else 40000
    for i in range(n):
        rng = C.case_rng(report.seed, i, "c05")
        tree = Tree(rng, sigs)
        for _ in range(3):
            k = rng.choice([0, 1, 1, 2, 3, 4, 5, 6])
            words = [rng.choice(WORDS) for _ in range(k)]
            # the first word must not be an option or a search directory (C16's business)
            while words and words[0].startswith("-"):
                words = words[1:]
            if any(w in (".", "..") or ("/" in w and not is_override(w)) for w in words[:1]):
                continue
            # a search directory can only appear before the first argument: keep `/` words after a plain word
            bad = False
            for j, w in enumerate(words):
                if "/" in w and not is_override(w) and all(is_override(x) for x in words[:j]):
                    bad = True
            if bad:
                continue
            cases.append((tree, words))
    results = C.pmap(run_case, cases)
    model = drv.pbatch([{"op": "args", "root": t.model, "words": w, "variables": t.variables} for t, w in cases], chunk=1000)
    stats = {"exhaustive_signature_cases": n_exh, "signatures": len(sigs), "random_cases": len(cases) - n_exh,
             "ok": 0, "errors": {}, "groups_hist": {}}
    distinct = set()
    samples = []
    for (t, words), r, m in zip(cases, results, model):
        if "fatal" in m:
            raise C.BuildError("model driver: " + m["fatal"])
        distinct.add(json.dumps([sorted(t.files.items()), words]))
        replay = {"files": t.files, "argv": words, "observed": {"rc": r["rc"], "groups": r["groups"], "stderr": r["stderr"][-500:]}}
        if "error" in m:
            kind = model_error(m["error"])
            stats["errors"][kind] = stats["errors"].get(kind, 0) + 1
            got = classify_error(r["stderr"])
            # direct oracle: an error runs no recipe
            if r["rc"] != 0 and r["groups"]:
                report.failure("c05-error-ran-something", "the command line was rejected but a recipe ran", replay)
                continue
            if r["rc"] == 0 or got != kind:
                replay["model"] = m
                if r["rc"] == 0:
                    # the implementation accepted words the documented rules reject
                    report.failure("c05-accepted:%s" % kind, "command line should be rejected (%s) but recipes ran" % kind, replay)
                else:
                    report.failure("c05-model-error", "model and implementation report different errors (%s vs %s)" % (kind, got),
                                   dict(replay, correspondence="C05 error kind vs Just.Args.parseArguments"), no_input=True)
            continue
        stats["ok"] += 1
        stats["groups_hist"][len(m["groups"])] = stats["groups_hist"].get(len(m["groups"]), 0) + 1
        # a (recipe, arguments) pair named twice on one command line runs once (C01): what is observed is the
        # first occurrence of each parsed group
        uniq = []
        for g in m["groups"]:
            if not any(u["id"] == g["id"] and u["args"] == g["args"] for u in uniq):
                uniq.append(g)
        want = [{"id": g["id"], "values": g["values"]} for g in uniq]
        want_bts = sum(1 for g in uniq for i, k in enumerate(t.kinds.get(g["id"], [])) if k == "defbt" and i >= g["nargs"])
        if r["rc"] == 0 and r["groups"] == want and r["default_backticks"] != want_bts:
            replay["expected_default_evaluations"] = want_bts
            replay["observed"]["default_backticks"] = r["default_backticks"]
            report.failure("c05-default-evaluated", "a parameter default was evaluated %d times, expected %d (defaults are for omitted parameters only)" % (r["default_backticks"], want_bts), replay)
            continue
        # an override replaces the variable's value: observed through the exported variable in root recipes
        ov = {"v1": "one", "var-2": "two", "_pv": "three", "pv2": "four"} if "var-2" in t.variables else {"v1": "one"}
        for k, v in m.get("overrides") or []:
            ov[k] = v
        if r["rc"] == 0 and r["groups"] == want:
            wrong = [(g["id"], e) for g, e in zip(r["groups"], r["envs"]) if "." not in g["id"] and any(e.get(k) != v for k, v in ov.items())]
            if wrong:
                replay["expected_variables"] = ov
                replay["observed"]["envs"] = r["envs"]
                report.failure("c05-override-value", "a NAME=VALUE override did not set the variable to VALUE", replay)
                continue
            stats["override_values_checked"] = stats.get("override_values_checked", 0) + sum(1 for _ in (m.get("overrides") or []))
        if r["rc"] != 0 or r["groups"] != want:
            replay["expected"] = want
            if r["rc"] != 0 and not r["groups"]:
                report.failure("c05-rejected", "a valid command line was rejected: " + classify_error(r["stderr"]), replay)
            else:
                report.failure("c05-binding", "words were bound to recipes/parameters differently from the documented rules", replay)
            continue
        if len(samples) < 4 and len(want) >= 2 and any(len(g["values"]) >= 2 for g in want):
            samples.append({"argv": words, "groups": want, "justfile": t.files["justfile"]})
    # modules whose names repeat across the tree: the default of an omitted parameter is evaluated in the recipe's own
    # module, whatever ran before it on the same command line (both ways of writing the path)
    minvs = []
    for m1 in MODS:
        for m2 in MODS:
            if m1 != m2:
                minvs.append([(m1, "colons", ["w1", "w2"]), (m2, "colons", ["w3"])])
                minvs.append([(m1, "spaced", ["w1", "w2"]), (m2, "spaced", ["w3"])])
    for invs, r in zip(minvs, C.pmap(run_module_defaults, minvs)):
        want = [[m, ws[0], ws[1] if len(ws) > 1 else "var-of-%s" % (m or "root")] for m, _, ws in invs]
        stats["module_default_command_lines"] = stats.get("module_default_command_lines", 0) + 1
        if r["rc"] != 0 or r["ran"] != want:
            report.failure("c05-module-default", "recipes of modules with repeating names: ran %s, documented %s" % (r["ran"], want),
                           {"files": module_files(), "argv": r["argv"], "observed": {"ran": r["ran"], "rc": r["rc"], "stderr": r["stderr"]}, "expected": want})
            break
    # Positional::from_values in-process (hook `positional`) against Just.Args.positional and, for the first word, against the
    # character-level Just.Words.classify: every vector of up to three words over an alphabet of word shapes, search
    # directories included (which the runs above leave to C16)
    C.build_jv()
    jv = C.Jv(timeout=300)
    PW = ["r", "a=b", "a=", "=b", "a=b/c", "a=/", "a=..", "a==b", "a-b=c", "_a=1", "1a=2", "a b=c", "\u00e9=1", ".", "..", "./", "../", "/", "//", "d/r", "d/",
          "/abs/r", "a/b/c", "d/r=1", "r=1/", ".=1", "..=..", "x::y", "x/y::z", "", " ", "=", "a=b=c/d", "-", "--", "..."]
    vecs = [[]] + [[a] for a in PW] + [[a, b] for a in PW for b in PW] + [[a, b, c] for a in PW[:14] for b in PW[:14] for c in PW[:14]]
    jres = jv.pbatch([{"op": "positional", "words": v} for v in vecs], chunk=5000)
    mres = drv.pbatch([{"op": "positional", "words": v} for v in vecs], chunk=5000)
    stats["positional_vectors"] = len(vecs)
    for v, jr, mr in zip(vecs, jres, mres):
        if "fatal" in mr:
            raise C.BuildError("model driver: " + mr["fatal"])
        got = {"overrides": [list(o) for o in jr.get("overrides", [])], "search_directory": jr.get("search_directory"), "arguments": jr.get("arguments")}
        want = {"overrides": mr["overrides"], "search_directory": mr["search_directory"], "arguments": mr["arguments"]}
        if got != want:
            report.failure("c05-model-positional", "Positional::from_values and Just.Args.positional read %r differently" % (v,),
                           {"correspondence": "C05 Positional::from_values vs Just.Args.positional", "words": v, "impl": got, "model": want}, no_input=True)
            break
        fw = mr.get("first_word")
        if v and fw is not None:
            if "override" in fw:
                ok = got["overrides"][:1] == [fw["override"]]
            elif "searchDir" in fw:
                ok = got["overrides"] == [] and got["search_directory"] == fw["searchDir"] and got["arguments"][:1] == ([fw["first"]] if fw["first"] is not None else got["arguments"][:1]) and \
                    (fw["first"] is not None or got["arguments"] == v[1:])
            else:
                ok = got["overrides"] == [] and got["search_directory"] is None and got["arguments"][:1] == [fw["argument"]]
            if not ok:
                report.failure("c05-model-words", "Just.Words.classify reads the first word of %r differently from Positional::from_values" % (v,),
                               {"correspondence": "C05 first word vs Just.Words.classify", "words": v, "impl": got, "model": fw}, no_input=True)
                break
        # the statement, directly: a leading NAME=VALUE word with an identifier NAME is an override whatever VALUE holds
        if v and re.match(r"^[A-Za-z_][A-Za-z0-9_-]*=", v[0]) and got["overrides"][:1] != [v[0].split("=", 1)]:
            report.failure("c05-override-not-recognised", "the leading word %r is NAME=VALUE but was not taken as an override" % v[0],
                           {"op": "positional", "words": v, "observed": got})
            break
    # ArgumentParser::parse_arguments in-process (hook `group`) against Just.Args.parseArguments: root-only justfiles with
    # three recipes and an alias, every vector of up to four words over recipe names, the alias, plain and empty words
    GW = ["r1", "r2", "r3", "al", "x", "y", "", "r1 "]
    gvecs = [list(v) for k in range(0, 5) for v in itertools.product(GW, repeat=k)]
    grng = C.case_rng(report.seed, 0, "c05-group")
    gsigs = grng.sample(sigs, 12 if tier == "quick" else 60)
    KIND = {"unknownRecipe": "UnknownRecipe", "argCount": "ArgumentCountMismatch", "defaultRequiresArgs": "DefaultRecipeRequiresArguments",
            "noRecipes": "NoRecipes", "noDefault": "NoDefaultRecipe", "unknownSubmodule": "UnknownSubmodule", "expectedSubmodule": "ExpectedSubmoduleButFoundRecipe"}
    n_group = 0
    for sig in gsigs:
        src = recipe_text("r1", "r1", sig) + "\n" + recipe_text("r2", "r2", ["req"]) + "\n" + recipe_text("r3", "r3", ["star"]) + "\nalias al := r1\n"
        src = src.replace("`[BD]`", "'bt'")
        sg = {"r1": {"id": "r1", "name": "r1", "params": [param_model(k, i) for i, k in enumerate(sig)]},
              "r2": {"id": "r2", "name": "r2", "params": [param_model("req", 0)]}, "r3": {"id": "r3", "name": "r3", "params": [param_model("star", 0)]}}
        root = {"recipes": [["r1", sg["r1"]], ["r2", sg["r2"]], ["r3", sg["r3"]], ["al", sg["r1"]]], "modules": [], "default": sg["r1"], "hasRecipes": True}
        gj = jv.pbatch([{"op": "group", "src": src, "words": v} for v in gvecs], chunk=5000)
        gm = drv.pbatch([{"op": "args", "root": root, "words": v, "variables": []} for v in gvecs], chunk=2500)
        for v, jr, mr in zip(gvecs, gj, gm):
            n_group += 1
            if "fatal" in mr:
                raise C.BuildError("model driver: " + mr["fatal"])
            if "groups" in jr:
                got = [[g["path"][-1], g["arguments"]] for g in jr["groups"]]
                want = [[g["id"], g["args"]] for g in mr["groups"]] if "groups" in mr else {"error": mr.get("error")}
            else:
                got = {"error": jr.get("error")}
                want = {"error": KIND.get(model_error(mr["error"]), model_error(mr["error"]))} if "error" in mr else [[g["id"], g["args"]] for g in mr["groups"]]
            if got != want:
                report.failure("c05-model-group", "ArgumentParser::parse_arguments and Just.Args.parseArguments group %r differently" % (v,),
                               {"correspondence": "C05 parse_arguments vs Just.Args.parseArguments", "src": src, "words": v, "impl": got, "model": want}, no_input=True)
                break
        else:
            continue
        break
    stats["grouping_vectors_in_process"] = n_group
    report.coverage.update({
        "evaluations": len(cases),
        "distinct_nontrivial": len(distinct),
        "rule": "every analyzer-valid signature with <=3 parameters over {required, default, default referring to p0, +, *, * with default} x 0..5 words x {alone, followed by a second recipe, as default recipe, with an override, with an empty word in each position} (exhaustive) + random module trees (root / mod m / mod n, aliases to own recipes and to recipes one and two modules down, default recipes) x word vectors from an adversarial alphabet (recipe and module names, NAME=VALUE, ::-paths, empty word, words with spaces) + seven modules whose names repeat across the tree, every ordered pair on one command line, the second invocation leaving a parameter to its default (a variable of its own module); distinct = distinct (files, argv)",
        "samples": samples,
        "exhaustive": True,
        "traces_validated_against_impl": len(cases),
        "stats": stats,
        "build_s": round(bt, 1),
    })
    report.assumptions += [
        "clap's own option parsing is trusted: the first word never starts with `-`; later words pass through",
        "search-directory words (`.`, `..`, containing `/`) in leading position belong to C16 and are not generated here",
        "parameter values are observed through the logging shell, separated by `|` (words never contain `|`)",
    ]


def replay(report, path):
    body = json.load(open(path))
    C.build_just()
    rp = body["replay"]
    t = Tree.__new__(Tree)
    t.files = rp["files"]
    t.kinds = {}
    r = run_case((t, rp["argv"]))
    print(json.dumps({"observed": r, "expected": rp.get("expected")}, indent=1))
    report.coverage.update({"obligations": 1, "discharged": 1, "checker_cmd": "replay", "trusted_base": []})
    if rp.get("expected") is not None and r["groups"] != rp["expected"]:
        report.failure(body["signature"], "replay still fails", rp)
