"""C06 - recipe text reaches the selected shell or interpreter verbatim.

Proof: lean/Just/Props/C06.lean over the Body model.
Tie to the code: generated recipes run through the binary with logging shells / interpreters
(symlinks to vsh under distinct names; `sh` on PATH is vsh too).  Three comparisons per case:
  oracle  what the statement demands, computed from the generator's own construction
  impl    argv of every spawned process and the script file it was given (vsh log)
  model   the Lean Body model fed with the body the binary itself parsed (JSON dump)
impl != oracle is a violation with the input; model != impl (with impl == oracle) is a broken
correspondence.
"""
import json
import os

from . import common as C

TEXTS = ["echo", "a b", "x", "'q'", "\"dq\"", "$HOME", "#c", "-n", "@", "-", "}}", "}", "{ ", "a\\b", "\\\\x", "\u4e2d\u6587", "\u00e9", "\U0001F600",
         "a\tb", "  ", " ", "\t", "x=1;", "|", "&&", "$(x)", "`y`", "!", "%", "*", "~", "z"]
VALUES = ["v", "", " ", "  lead", "trail  ", "@at", "-dash", "#hash", "{{", "}}", "a\\", "\\", "\u4e2d", "a b", "\tt", "'", "\"", "$x", "{{{{"]
INDENTS = ["  ", "\t", "    "]


def gen_line(rng, allow_sigil=True):
    """one physical body line (without indentation): list of pieces; never ends in `{`"""
    pieces = []
    if allow_sigil and rng.random() < 0.3:
        pieces.append(("text", rng.choice(["@", "-", "@-", "-@", "@@", "--"])))
    n = rng.randint(1, 4)
    for _ in range(n):
        r = rng.random()
        if r < 0.5:
            pieces.append(("text", rng.choice(TEXTS)))
        elif r < 0.7:
            pieces.append(("var", rng.randrange(len(VALUES))))
        elif r < 0.8:
            pieces.append(("lit", rng.randrange(len(VALUES))))
        elif r < 0.9:
            pieces.append(("text", "{{{{"))
        else:
            pieces.append(("text", " "))
    return pieces


def piece_src(p):
    k, v = p
    if k == "text":
        return v
    if k == "var":
        return "{{v%d}}" % v
    val = VALUES[v]
    if "'" in val:
        return "{{\"%s\"}}" % val.replace("\\", "\\\\").replace('"', '\\"').replace("\t", "\\t")
    return "{{'%s'}}" % val


def piece_val(p):
    k, v = p
    if k == "text":
        return v.replace("{{{{", "{{")
    return VALUES[v]


def line_src(pieces):
    return "".join(piece_src(p) for p in pieces)


def fix_braces(pieces):
    """keep pieces from fusing into other brace tokens: a blank text piece goes between `…{` and `{…`"""
    out = []
    for p in pieces:
        if out and out[-1] == ("text", "{{{{") and p[0] in ("var", "lit") and (len(out) < 2 or not piece_src(out[-2]).endswith("{")) and len(pieces) % 2 == 0:
            pass        # an escaped `{{` directly followed by an interpolation: a run of six opening braces
        elif out and piece_src(out[-1]).endswith("{") and piece_src(p).startswith("{"):
            out.append(("text", " "))
        out.append(p)
    return out


def gen_case(seed, index):
    rng = C.case_rng(seed, index, "c06")
    kind = rng.choice(["linewise", "linewise", "linewise", "shebang", "script", "script-own"])
    indent = rng.choice(INDENTS)
    eol = rng.choice(["\n", "\n", "\r\n"])
    ignore_comments = rng.random() < 0.25
    cli = rng.choice(["none", "none", "shell", "arg", "both", "clear", "shell-clear"])
    set_shell = rng.random() < 0.5
    set_script = rng.random() < 0.5
    where = rng.choice(["root", "root", "module"])
    lines = []       # physical body lines: dict(kind=line|blank, pieces, extra, cont)
    n = rng.randint(1, 6)
    prev_cont = False
    for i in range(n):
        r = rng.random()
        if r < 0.12 and not prev_cont and i > 0:
            lines.append({"kind": "blank", "ws": rng.choice(["", "", indent, "  "]) if kind == "linewise" else ""})
            continue
        if r < 0.22 and not prev_cont:
            pieces = [("text", "# comment " + rng.choice(TEXTS))]
            if rng.random() < 0.3:
                pieces.append(("var", rng.randrange(len(VALUES))))
        else:
            pieces = gen_line(rng, allow_sigil=(kind == "linewise"))
        extra = ""
        if kind != "linewise" and rng.random() < 0.4 and any(x["kind"] == "line" for x in lines):
            extra = rng.choice(["  ", "    ", " "]) if indent != "\t" else rng.choice(["\t", "  "])
        if kind == "linewise" and prev_cont and rng.random() < 0.7:
            extra = rng.choice(["  ", "    ", " ", "\t"]) if indent != "\t" else rng.choice(["\t", "  ", "\t\t"])
        cont = kind == "linewise" and rng.random() < 0.3
        if cont:
            # the backslash is the end of a text piece
            bs = " \\" if rng.random() < 0.75 else rng.choice([" \\\\", "\\\\\\"])     # (one backslash, or two / three: the last one continues the line)
            if pieces and pieces[-1][0] == "text":
                pieces[-1] = ("text", pieces[-1][1] + bs)
            else:
                pieces.append(("text", bs))
        elif pieces and pieces[-1][0] == "text" and pieces[-1][1].endswith("\\"):
            pieces.append(("text", "."))
        # a line must not be whitespace-only (it would be a blank line) nor start with whitespace (extra indentation)
        pieces = fix_braces(pieces)
        src = line_src(pieces)
        if src.strip(" \t") == "" or src[0] in " \t":
            pieces.insert(0, ("text", "w"))
        lines.append({"kind": "line", "pieces": pieces, "extra": extra, "cont": cont})
        prev_cont = cont
    if kind == "shebang":
        lines.insert(0, {"kind": "line", "pieces": [("text", "#!@SHEBANG@ sbarg")], "extra": "", "cont": False})
    return {"index": index, "kind": kind, "indent": indent, "eol": eol, "ignore_comments": ignore_comments, "cli": cli,
            "set_shell": set_shell, "set_script": set_script, "lines": lines, "where": where}


def build(case, d):
    """returns (justfile text, argv, header_line_index)"""
    b = os.path.join(d, "bin")
    head = []
    if case["set_shell"]:
        head.append("set shell := ['%s/setsh', '-x', '-c']" % b)
    if case["set_script"]:
        head.append("set script-interpreter := ['%s/setscr', '-q']" % b)
    if case["ignore_comments"]:
        head.append("set ignore-comments")
    head.append("set unstable")
    for i, v in enumerate(VALUES):
        if "'" in v:
            head.append("v%d := \"%s\"" % (i, v.replace("\\", "\\\\").replace('"', '\\"').replace("\t", "\\t")))
        else:
            head.append("v%d := '%s'" % (i, v))
    head.append("bt := `BTMARK`")
    head.append("sf := shell('SFMARK $1', 'sfarg')")
    if case["kind"] == "script":
        head.append("[script]")
    elif case["kind"] == "script-own":
        head.append("[script('%s/ownscr', '-o')]" % b)
    header_index = len(head)
    head.append("r:")
    body = []
    for l in case["lines"]:
        if l["kind"] == "blank":
            body.append(l["ws"])
        else:
            body.append(case["indent"] + l["extra"] + line_src(l["pieces"]).replace("@SHEBANG@", "%s/shbang" % b))
    text = case["eol"].join(head + body) + case["eol"] + case["eol"].join(["", "other:", case["indent"] + "echo other", ""])
    argv = []
    cli = case["cli"]
    if cli in ("shell", "both", "shell-clear"):
        argv += ["--shell", "%s/clish" % b]
    if cli in ("arg", "both"):
        argv += ["--shell-arg", "-A", "--shell-arg", "-B"]
    if cli in ("clear", "shell-clear"):
        argv += ["--clear-shell-args"]
    argv += ["m::r" if case.get("where") == "module" else "r"]
    return text, argv, header_index


def oracle(case, d):
    """what the statement demands"""
    b = os.path.join(d, "bin")
    cli = case["cli"]
    if cli == "none":
        shell = ["%s/setsh" % b, "-x", "-c"] if case["set_shell"] else ["sh", "-cu"]
    else:
        sh = "%s/clish" % b if cli in ("shell", "both", "shell-clear") else "sh"
        args = ["-A", "-B"] if cli in ("arg", "both") else ([] if cli in ("clear", "shell-clear") else ["-cu"])
        shell = [sh] + args
    out = {"shell": shell}
    phys = [l for l in case["lines"]]
    # trailing blank lines are not part of the body
    while phys and phys[-1]["kind"] == "blank":
        phys = phys[:-1]
    def full(l):
        """pieces of a physical line with its extra indentation as leading text"""
        ps = list(l["pieces"])
        if l["extra"]:
            if ps and ps[0][0] == "text":
                ps[0] = ("text", l["extra"] + ps[0][1])
            else:
                ps.insert(0, ("text", l["extra"]))
        # adjacent text pieces are one run of text in the source
        merged = []
        for p in ps:
            if merged and merged[-1][0] == "text" and p[0] == "text":
                merged[-1] = ("text", merged[-1][1] + p[1])
            else:
                merged.append(p)
        return merged

    if case["kind"] == "linewise":
        cmds = []
        i = 0
        while i < len(phys):
            l = phys[i]
            if l["kind"] == "blank":
                i += 1
                continue
            ps = full(l)
            first_text = ps[0][1] if ps[0][0] == "text" else None
            if case["ignore_comments"] and first_text is not None and first_text.startswith("#"):
                i += 1
                continue
            text = ""
            first = True
            while True:
                l = phys[i]
                if l["kind"] == "blank":
                    seg = ""
                    cont = False
                else:
                    ps = full(l)
                    seg = "".join(piece_val(p) for p in ps)
                    if not first and ps[0][0] == "text":
                        # the continuation's indentation (white space in front of its leading text) is dropped;
                        # a leading interpolation is kept as it is
                        seg = piece_val(ps[0]).lstrip() + "".join(piece_val(p) for p in ps[1:])
                    cont = l["cont"]
                    if cont:
                        seg = seg[:-1]
                text += seg
                i += 1
                first = False
                if not cont or i >= len(phys):
                    break
            # sigils
            quiet = infallible = False
            if first_text is not None:
                if first_text.startswith("@-") or first_text.startswith("-@"):
                    quiet = infallible = True
                elif first_text.startswith("@"):
                    quiet = True
                elif first_text.startswith("-"):
                    infallible = True
            text = text[int(quiet) + int(infallible):]
            if text != "":
                cmds.append(text)
        out["cmds"] = cmds
    else:
        if case["kind"] == "shebang":
            out["interp"] = ["%s/shbang" % b, "sbarg"]
        elif case["kind"] == "script-own":
            out["interp"] = ["%s/ownscr" % b, "-o"]
        elif case["set_script"]:
            out["interp"] = ["%s/setscr" % b, "-q"]
        else:
            out["interp"] = ["sh", "-eu"]
        # (line index in the justfile, text) for every non-blank body line
        want = []
        for k, l in enumerate(phys):
            if l["kind"] == "blank":
                continue
            text = l["extra"] + "".join(piece_val(p) for p in l["pieces"]).replace("@SHEBANG@", "%s/shbang" % b)
            want.append((k, text))
        out["script_lines"] = want
    return out


def model_request(case, dump, header_index, d):
    b = os.path.join(d, "bin")
    body = dump["recipes"]["r"]["body"]
    values = {("v%d" % i): v for i, v in enumerate(VALUES)}
    lines = []
    for k, frs in enumerate(body):
        frags = []
        for f in frs:
            if isinstance(f, str):
                frags.append({"t": f})
            else:
                e = f[0]
                if isinstance(e, str):
                    frags.append({"v": e})
                elif e[0] == "variable":
                    frags.append({"v": values[e[1]]})
                else:
                    raise C.BuildError("unexpected interpolation in dump: %r" % (e,))
        lines.append({"number": header_index + 1 + k, "frags": frags})
    cli = case["cli"]
    req = {"op": "body", "lines": lines, "ignoreComments": case["ignore_comments"],
           "script": None if case["kind"] in ("linewise", "shebang") else {"own": {"command": "%s/ownscr" % b, "args": ["-o"]} if case["kind"] == "script-own" else None},
           "cliShell": "%s/clish" % b if cli in ("shell", "both", "shell-clear") else None,
           "cliArgs": ["-A", "-B"] if cli in ("arg", "both") else ([] if cli in ("clear", "shell-clear") else None),
           "setShell": {"command": "%s/setsh" % b, "args": ["-x", "-c"]} if case["set_shell"] else None,
           "setScript": {"command": "%s/setscr" % b, "args": ["-q"]} if case["set_script"] else None}
    return req


def run_case(case):
    with C.scratch("c06") as d:
        b = os.path.join(d, "bin")
        os.makedirs(b)
        for name in ["sh", "setsh", "setscr", "ownscr", "shbang", "clish", "rootsh", "rootscr"]:
            os.symlink(C.VSH, os.path.join(b, name))
        text, argv, header_index = build(case, d)
        if case.get("where") == "module":
            # the recipe lives in a submodule with its own settings; the root's settings must not leak into it
            with open(os.path.join(d, "m.just"), "wb") as f:
                f.write(text.encode("utf-8"))
            root = "set shell := ['%s/rootsh', '-r']\nset unstable\nset script-interpreter := ['%s/rootscr', '-R']\nmod m\n" % (b, b)
            with open(os.path.join(d, "justfile"), "wb") as f:
                f.write(root.encode("utf-8"))
        else:
            with open(os.path.join(d, "justfile"), "wb") as f:
                f.write(text.encode("utf-8"))
        log = os.path.join(d, "vsh.log")
        env = {"VSH_LOG": log, "PATH": b + ":/usr/bin:/bin"}
        rc0, out0, err0 = C.run_just(["--dump", "--dump-format", "json"], d, env=env)
        if rc0 != 0:
            return {"case": case, "text": text, "argv": argv, "compile_error": err0.decode("utf-8", "replace")[-400:]}
        dump = json.loads(out0)
        if case.get("where") == "module":
            dump = dump["modules"]["m"]
        if os.path.exists(log):
            os.unlink(log)
        rc, out, err = C.run_just(argv, d, env=env)
        entries = C.read_vsh_log(log)
        want = oracle(case, d)
        req = model_request(case, dump, header_index, d)

        def norm(s):
            return s.replace(d, "@D@")
        return {"case": case, "text": norm(text), "argv": [norm(a) for a in argv], "rc": rc, "stderr": norm(err.decode("utf-8", "replace"))[-400:],
                "entries": [{"argv": [norm(a) for a in e["argv"]], "script": None if e["script"] is None else norm(e["script"])} for e in entries],
                "want": json.loads(norm(json.dumps(want))), "req": json.loads(norm(json.dumps(req))), "header_index": header_index}


def run(report):
    tier = report.tier
    C.build_vsh()
    C.build_just()
    C.proof_stage(report, "C06", thorough=(tier == "thorough"))
    dr = C.Driver()
    n = 1500 if tier == "quick" else 20000
    cases = [gen_case(report.seed, i) for i in range(n)]
    results = C.pmap(run_case, cases)
    runnable = [r for r in results if "compile_error" not in r]
    models = dr.pbatch([r["req"] for r in runnable])
    stats = {"kinds": {}, "cli": {}, "eol": {}, "commands": 0, "continued_groups": 0, "script_lines": 0, "compile_errors": 0}
    for r in results:
        if "compile_error" in r:
            stats["compile_errors"] += 1
            report.failure("c06-generator", "generated justfile does not compile: " + r["compile_error"][-200:],
                           {"text": r["text"], "argv": r["argv"]}, no_input=True)
    for r, m in zip(runnable, models):
        c = r["case"]
        stats["kinds"][c["kind"]] = stats["kinds"].get(c["kind"], 0) + 1
        stats["cli"][c["cli"]] = stats["cli"].get(c["cli"], 0) + 1
        stats.setdefault("where", {})
        stats["where"][c.get("where", "root")] = stats["where"].get(c.get("where", "root"), 0) + 1
        stats["eol"][repr(c["eol"])] = stats["eol"].get(repr(c["eol"]), 0) + 1
        stats["continued_groups"] += sum(1 for l in c["lines"] if l.get("cont"))
        replay = {"justfile": r["text"], "argv": r["argv"], "seed": report.seed, "index": c["index"]}
        want = r["want"]
        entries = r["entries"]
        if r["rc"] != 0:
            report.failure("c06-run-failed", "the run failed although every child exits 0: " + r["stderr"][-200:], replay, no_input=True)
            continue
        # backticks and shell() use the selected shell
        bt = [e for e in entries if e["argv"] and e["argv"][-1] == "BTMARK"]
        sf = [e for e in entries if "SFMARK $1" in e["argv"]]
        rest = [e for e in entries if e not in bt and e not in sf]
        if len(bt) != 1 or bt[0]["argv"] != want["shell"] + ["BTMARK"]:
            report.failure("c06-backtick-shell", "a backtick was not run as %r + [command]: %r" % (want["shell"], [e["argv"] for e in bt]), replay)
            continue
        # (shell() passes the command once more as $0)
        if len(sf) != 1 or sf[0]["argv"] != want["shell"] + ["SFMARK $1", "SFMARK $1", "sfarg"]:
            report.failure("c06-shell-function", "shell() was not run as %r + [command, args]: %r" % (want["shell"], [e["argv"] for e in sf]), replay)
            continue
        if c["kind"] == "linewise":
            got = [e["argv"] for e in rest]
            exp = [want["shell"] + [cmd] for cmd in want["cmds"]]
            stats["commands"] += len(exp)
            if got != exp:
                report.failure("c06-linewise:%s" % ("shell" if [g[:-1] for g in got] != [e[:-1] for e in exp] and len(got) == len(exp) else "text"),
                               "the shell did not receive the recipe lines verbatim, one process per logical line: got %r want %r" % (got, exp),
                               dict(replay, got=got, want=exp))
                continue
            if m.get("kind") != "lines" or [m["shell"] + [x["text"]] for x in m["cmds"]] != got:
                report.failure("c06-model-linewise", "Lean Body model and implementation disagree (implementation matches the statement oracle)",
                               dict(replay, correspondence="linewise commands (vlib/c06.py)", model=m, impl=got), no_input=True)
        else:
            if len(rest) != 1:
                report.failure("c06-script-count", "a script recipe must start exactly one process, got %r" % [e["argv"] for e in rest], replay)
                continue
            e = rest[0]
            path = e["argv"][-1]
            if e["argv"][:-1] != want["interp"] or e["script"] is None:
                report.failure("c06-script-interpreter", "script recipe executed as %r, expected %r + [script file]" % (e["argv"], want["interp"]),
                               dict(replay, got=e["argv"], want=want["interp"]))
                continue
            slines = e["script"].split("\n")
            bad = None
            for k, text in want["script_lines"]:
                stats["script_lines"] += 1
                if c["kind"] == "shebang" and k == 0:
                    idx = 0
                else:
                    idx = r["header_index"] + 1 + k
                if idx >= len(slines) or slines[idx] != text:
                    bad = (k, idx, text, slines[idx] if idx < len(slines) else None)
                    break
            if bad:
                report.failure("c06-script-lines", "body line %d is not at line %d of the script file verbatim: want %r got %r" % bad,
                               dict(replay, script=e["script"]))
                continue
            nonblank = [s for s in slines if s != ""]
            if len(nonblank) != len([1 for _, t in want["script_lines"] if t != ""]):
                report.failure("c06-script-extra", "the script file has lines that are not in the recipe body", dict(replay, script=e["script"]))
                continue
            mi = m.get("interp")
            if m.get("kind") != "script" or m["text"] != e["script"] or (mi is not None and mi != e["argv"][:-1]) or (mi is None) != (c["kind"] == "shebang"):
                report.failure("c06-model-script", "Lean Body model and implementation disagree on the script (implementation matches the statement oracle)",
                               dict(replay, correspondence="script text / interpreter (vlib/c06.py)", model=m, impl={"argv": e["argv"], "script": e["script"]}), no_input=True)
    report.coverage.update({"inputs": len(cases)})
    report.coverage.update(stats)
    report.assumptions += [
        "interpolations are variables and string literals with newline-free values (expression evaluation is C04); a value containing a line feed necessarily shifts later script lines",
        "body-mode lexing and parse_body are exercised through the binary and compared with the oracle; the Lean lexer port is tied token for token in C12",
        "shebang recipes are started by the kernel from the `#!` line (Unix); Windows paths (cygpath, cmd/powershell extensions) are not covered",
        "`--shell-arg` without `--shell` selects `sh` with the given arguments even when `set shell` is present (checked and modelled: command_line_overrides_setting)",
    ]
    C.finish(report)


def replay(report, path):
    body = json.load(open(path))
    rp = body["replay"]
    C.build_vsh()
    C.build_just()
    report.coverage.update({"obligations": 1, "discharged": 1, "checker_cmd": "replay", "trusted_base": []})
    if "index" in rp:
        r = run_case(gen_case(rp.get("seed", body.get("seed", 0)), rp["index"]))
        print(json.dumps({k: r[k] for k in r if k != "case"}, indent=1, ensure_ascii=False)[:4000])
    C.finish(report)
