"""C11 - no input makes just panic, abort, hang or report an internal error.

Proof: lean/Just/Props/C11.lean (lexer termination / progress; the printer's `invalid line number`
branch is unreachable for lexer errors).  The lexer model makes every `assert_eq!` and
`internal_error` site an explicit Internal error, so a source on which the model says Internal is a
predicted crash; the differential check runs model and implementation side by side.

Enumeration (tie to the code and search for failing inputs):
  S1  in-process (jv, catch_unwind, 8 MiB stack): lex + compile (parse, analyze, dump, format) of
      enumerated, random and mutated sources; unindent on an exhaustive whitespace alphabet
  S2  the binary: command lines over the option grammar with hostile operands; every built-in
      function with hostile arguments; every parameter-list shape x argument count; sigil and
      shebang shapes of recipe lines
  S3  deep nesting and long chains (each construct at 256 / 1000 / 30000 [/ 100000] levels)
A failure = panic, abort, signal, timeout, exit status 101, or a message with "internal error".
"""
import itertools
import json
import os
import random
import re

from . import common as C
from . import extract as E
from . import lexgen as G

BAD_MARKERS = ("panicked at", "nternal error", "Internal runtime error", "Internal config error", "overflowed its stack")


def bad_text(text):
    return any(m in text for m in BAD_MARKERS)


# ------------------------------------------------------------------------------------------------
# S1

def s1_sources(tier, seed):
    rng = random.Random(seed ^ 0x11)
    srcs = list(G.exhaustive(G.PIECES, 2))
    srcs += list(G.exhaustive(G.CORE, 3 if tier == "quick" else 4))
    srcs += [G.random_source(rng) for _ in range(15000 if tier == "quick" else 150000)]
    repo = G.repo_sources()
    for s in repo:
        srcs.append(s)
        cur = s
        for _ in range(15 if tier == "quick" else 120):
            cur = G.mutate(rng, cur if rng.random() < 0.5 else s)
            srcs.append(cur)
    # whole files built around the item loop of parse_ast (every item kind, attributes, settings, doc comments; a quarter
    # deliberately malformed) and their mutations: the structured inputs of the C10 whole-file differential
    from . import c10 as F
    for i in range(2500 if tier == "quick" else 30000):
        text = F.gen_ast_file(rng, i)
        srcs.append(text)
        if i % 3 == 0:
            srcs.append(G.mutate(rng, text))
    # indented strings / backticks with odd whitespace lines (unindent)
    ws = ["", " ", "  ", "\t", "\x0c", "\u00a0", "\u2028", "\x0b", "\u0085", " \x0c", "\r"]
    for d in ["'''", '"""', "```"]:
        for a, b, c in itertools.product(ws, repeat=3):
            srcs.append("x := %s\n%sa\n%s\n%sb\n%s\n" % (d, a, b, c, d))
    return srcs


UNINDENT_ALPHABET = [" ", "a", "\n", "\x0c", "\u00a0", "\t"]


def classify_jv(r):
    if "abort" in r:
        return "abort"
    if "panic" in r:
        return "panic"
    # (`rendered` echoes a source line, which may contain anything: only the message is inspected)
    if r.get("error") == "Internal" or bad_text(r.get("message", "")):
        return "internal"
    if "fatal" in r:
        return "harness"
    return None


# ------------------------------------------------------------------------------------------------
# S2

OPERANDS = ["", " ", "  ", "::", "a::", "::a", "a::b", "a:::b", "a b", "m::r", "m r", "m", "r", "-", "--", "=", "a=", "=a", "v=1",
            "%Q", "%", "%9999999999d", "%-", "{", "{{", "}}", "\u00e9", "\U0001F600", "a\nb", "\t", "..", "/", ".", "\\", "'", "\"",
            "x" * 5000, "0", "-1", "[", "*", "$(", "`", "/..", "//", "/.", "../..", "/justfile", "./"]

ROOT_JUSTFILE = """set shell := ["%(vsh)s", "-c"]
mod m
v := 'val'
export e := "exported"
alias al := r
# doc
r p='d' *rest:
  echo {{p}} {{rest}}
[private]
hidden:
  echo hidden
[group: 'g']
grouped $x +ys:
  echo {{x}} {{ys}}
"""
MOD_JUSTFILE = "set shell := [\"%(vsh)s\", \"-c\"]\nr:\n  echo mod\nother q:\n  echo {{q}}\n"

# every strftime specifier chrono knows or does not know, with the padding / alternate-form modifiers: an echoed line
# formats the time with it (`%#z` parses but cannot be displayed; `%Q` does not parse)
TIMESTAMP_FORMATS = (["%" + c for c in "abcdefghijklmnopqrstuvwxyzABCDEFGHIJKLMNOPQRSTUVWXYZ+%:#.-_0123456789"]
                     + ["%" + m + c for m in "#:.-_0" for c in "zZfdHMSjyYsn3"] + ["%::z", "%:::z", "%3f", "%.3f", "%.6f", "%.9f", "%6f", "%9f", "%#"])

OPTION_TEMPLATES = [
    ["--justfile", "@", "--working-directory", "."], ["--justfile", "@", "--working-directory", ".", "--list"], ["-f", "@", "-d", "@", "r"],
    ["--show", "@"], ["--list", "@"], ["--usage", "@"], ["--set", "v", "@"], ["--set", "@", "x"], ["@"], ["r", "@"], ["r", "@", "@"],
    ["--shell", "@", "r"], ["--shell-arg", "@", "r"], ["--timestamp", "--timestamp-format", "@", "r"], ["--dotenv-filename", "@", "r"],
    ["--dotenv-path", "@", "r"], ["--command", "@"], ["--justfile", "@"], ["--working-directory", "@", "--justfile", "justfile"],
    ["--dump-format", "@", "--dump"], ["--color", "@", "--list"], ["--command-color", "@", "r"], ["--list-heading", "@", "--list"],
    ["--list-prefix", "@", "--list"], ["--alias-style", "@", "--list"], ["--tempdir", "@", "r"], ["--request", "@"],
    ["--completions", "@"], ["--evaluate", "@"], ["--variables", "@"], ["--groups", "@"], ["--summary", "@"], ["--dump", "@"],
    ["--choose", "--chooser", "@"], ["--unstable", "--fmt", "--check", "@"], ["--list", "@", "@"], ["--show", "@", "@"],
    ["--one", "@", "@"], ["--yes", "--dry-run", "@"], ["--explain", "@"], ["--global-justfile", "@"], ["--cygpath", "@", "r"],
    ["--ceiling", "@", "r"], ["-n", "--timestamp", "@"], ["--verbose", "--verbose", "@"], ["m::@"], ["m", "@"], ["@::r"],
]

ARG_POOL = ["", " ", "%Q", "%", "a", "-1", "0", "5", "99999999999999999999", "\u00e9", "/", "..", "a/b", "*", "[", "(", "\\", "1.2.3", ">=1",
            "x" * 300, "{}", "$HOME", "~", "a.b.c", "\n", "abc def", "^(", "\U0001F600", ".", "//", "a\x00b"[:1], "--", "'", "\"",
            "%Y-%m-%d", "%+", "%:::z", "%3f", "%-", "1", "1.0", "^1.2", "~1", ">=1.0.0, <2", "a{2}", "(?P<n>a)", "$1", "${n}", "a\\", "a/../b",
            "/a/b.tar.gz", ".hidden", "a.", "AbcDef", "snake_case", "kebab-case", "\u00c4\u00d6", "\u00df", "\u0130", "a\tb", "\r\n", "0x10", "1e3",
            "18446744073709551616", "-0", "+1", " 5 "]

# {i} = this parameter's index, {prev} / {next} = its neighbours: defaults may only see earlier parameters and
# assignments; a default that names itself, a later parameter or nothing at all must be a compile error
PARAM_SHAPES = ["p{i}", "p{i}='d'", "+p{i}", "+p{i}='d'", "*p{i}", "*p{i}='d'", "$p{i}", "p{i}=`echo`",
                "p{i}=p{i}", "p{i}=p{prev}", "p{i}=p{next}", "p{i}=g", "p{i}=(p{i} + g)", "+p{i}=p{i}", "*p{i}=p{prev}", "$p{i}=nowhere"]

LINE_SHAPES = ["@", "-", "@-", "-@", "@@", "--", "@ ", "- ", "@\u00e9", "-\u00e9", "\u00e9", "#", "#!", "@#", "{{''}}", "@{{''}}", "{{'@'}}x", "\\", "@\\",
               "echo {{{{", "{{'a'}}{{'b'}}", " x", "@ @x", "#!{{''}}", "#! {{''}}", "#!/bin/sh {{''}}", "x \\\n    y", "@x \\\n    @y", "\u00e9\\\n  \u00e9"]


ENV_VARS = ["JUST_ALIAS_STYLE", "JUST_CHOOSER", "JUST_COLOR", "JUST_COMMAND_COLOR", "JUST_DRY_RUN", "JUST_DUMP_FORMAT", "JUST_EXPLAIN",
            "JUST_HIGHLIGHT", "JUST_JUSTFILE", "JUST_LIST_HEADING", "JUST_LIST_PREFIX", "JUST_LIST_SUBMODULES", "JUST_NO_ALIASES", "JUST_NO_DEPS",
            "JUST_NO_DOTENV", "JUST_NO_HIGHLIGHT", "JUST_ONE", "JUST_QUIET", "JUST_ALLOW_MISSING", "JUST_TIMESTAMP", "JUST_TIMESTAMP_FORMAT",
            "JUST_UNSORTED", "JUST_UNSTABLE", "JUST_VERBOSE", "JUST_WORKING_DIRECTORY", "JUST_YES", "NO_COLOR", "XDG_CONFIG_HOME", "HOME", "PATH"]
ENV_ARGVS = [["r"], ["--list"], ["--dump"], ["--choose"], ["--timestamp", "r"], ["--evaluate"], ["--summary"], ["m::r"], ["--global-justfile", "--list"]]
PLAIN_ARGVS = [["--changelog"], ["--man"], ["--init"], ["--edit"], ["--choose"], ["--help"], ["--version"], ["-h"], ["-V"], ["--completions", "bash"],
               ["--completions", "zsh"], ["--completions", "fish"], ["--completions", "powershell"], ["--completions", "elvish"], ["--completions", "nushell"],
               ["--dump", "--dump-format", "json"], ["--list", "--list-submodules"], ["--list", "--unsorted"], ["--no-deps", "r"], ["--no-aliases", "--list"],
               ["--groups"], ["--variables"], ["--summary"], ["--unstable", "--fmt", "--check"], ["--one", "r", "hidden"], ["--explain", "r"],
               ["--highlight", "r"], ["--no-highlight", "r"], ["--yes", "r"], ["--dry-run", "--verbose", "--verbose", "r"], ["--quiet", "r"]]


def run_cli_case(case):
    """case: dict(files, argv, stdin)"""
    with C.scratch("c11") as d:
        for rel, text in case["files"].items():
            p = os.path.join(d, rel)
            os.makedirs(os.path.dirname(p), exist_ok=True)
            with open(p, "wb") as f:
                f.write(text.encode("utf-8", "surrogateescape"))
        env = {"VSH_LOG": os.path.join(d, "vsh.log"), "EDITOR": C.VSH, "VISUAL": C.VSH}
        env.update(case.get("env") or {})
        rc, out, err = C.run_just(case["argv"], os.path.join(d, case["cwd"]) if case.get("cwd") else d, env=env, timeout=20)
        text = (out + err).decode("utf-8", "replace")
        if rc is None:
            return "timeout", text[-400:]
        if rc in (101, 134, 139) or rc < 0:
            return "crash rc=%s" % rc, text[-600:]
        if bad_text(text):
            return "internal", text[-600:]
        return None, ""


def py_cook(src):
    """cooked value of the literal in `x := "…"` per the README, or None when this oracle does not apply (indented literals,
    unicode escapes other than well-formed ones, invalid escapes)"""
    m = re.match(r'^x := "((?:.|\n)*)"\n$', src)
    if not m or src.startswith('x := """'):
        return None
    c = m.group(1)
    out = []
    i = 0
    while i < len(c):
        ch = c[i]
        if ch != "\\":
            out.append(ch)
            i += 1
            continue
        nxt = c[i + 1:i + 2]
        if nxt in ("n", "r", "t", "\\", '"'):
            out.append({"n": "\n", "r": "\r", "t": "\t", "\\": "\\", '"': '"'}[nxt])
            i += 2
        elif nxt == "\n":
            i += 2
        elif c[i + 1:i + 3] == "\r\n":
            i += 3
        else:
            return None
    return {"cooked": "".join(out)}


# ------------------------------------------------------------------------------------------------
# S3

def deep_sources(n):
    return {
        "paren": "x := " + "(" * n + "'a'" + ")" * n + "\n",
        "plus": "x := " + "'a' + " * n + "'b'\n",
        "slash": "x := " + "'a' / " * n + "'b'\n",
        "leading-slash": "x := " + "/ " * n + "'b'\n",
        "and": "x := " + "'a' && " * n + "'b'\n",
        "or": "x := " + "'a' || " * n + "'b'\n",
        "elseif": "x := " + "if 'a' == 'b' { 'c' } else " * n + "{ 'd' }\n",
        "then-if": "x := " + "if 'a' == 'b' { " * n + "'c'" + " } else { 'd' }" * n + "\n",
        "cond-lhs": "x := " + "if " * n + "'a'" + " == 'b' { 'c' } else { 'd' }" * n + "\n",
        "call": "x := " + "trim(" * n + "'a'" + ")" * n + "\n",
        "assert": "x := " + "assert('a' == 'a', " * n + "'m'" + ")" * n + "\n",
        "interp": "a:\n  echo " + "{{" * n + "'a'" + "}}" * n + "\n",
        "bracket-attr": "[" * n + "private" + "]" * n + "\na:\n",
        "set-list": "set shell := " + "[" * n + "'a'" + "]" * n + "\n",
        "deps": "a: " + "a0 " * n + "\na0:\n",
        "dep-args": "a: (b " + "'x' " * n + ")\nb *v:\n",
        "params": "a " + " ".join("p%d" % i for i in range(n)) + ":\n",
        "recipes": "".join("r%d:\n" % i for i in range(n)),
        "assigns-chain": "".join("v%d := v%d\n" % (i, i + 1) for i in range(n)) + "v%d := 'a'\n" % n,
        "recipe-chain": "".join("r%d: r%d\n" % (i, i + 1) for i in range(n)) + "r%d:\n" % n,
        "long-line": "x := '" + "a" * n + "'\n",
        "long-body": "a:\n" + "  echo hi\n" * n,
        "continuations": "a:\n  echo \\\n" + "   x \\\n" * n + "   y\n",
        "comment-lines": "# c\n" * n,
        "braces": "x := " + "{" * n + "\n",
        "quotes": "x := " + "'a'" * n + "\n",
        "dedent-stack": "".join(" " * (i + 1) + "x\n" for i in range(min(n, 2000))),
        "interp-open": "a:\n  " + "{{ " * n + "\n",
        "attr-list": "[" + ", ".join("group: 'g%d'" % i for i in range(n)) + "]\na:\n",
        "escapes": "x := \"" + "\\n" * n + "\"\n",
        "unicode-escapes": "x := \"" + "\\u{1F600}" * n + "\"\n",
    }


# ------------------------------------------------------------------------------------------------

def run(report):
    tier = report.tier
    thorough = tier == "thorough"
    C.build_jv()
    C.build_just()
    C.build_vsh()
    C.proof_stage(report, "C11", thorough=thorough)
    jv = C.Jv(timeout=300)
    dr = C.Driver()
    stats = {}

    # ---- S1 ------------------------------------------------------------------------------------
    srcs = s1_sources(tier, report.seed)
    lex_impl = jv.pbatch([{"op": "lex", "src": s} for s in srcs])
    lex_model = dr.pbatch([{"op": "lex", "src": s} for s in srcs])
    status = jv.pbatch([{"op": "status", "src": s} for s in srcs])
    outcome = {}
    for s, a, m, st in zip(srcs, lex_impl, lex_model, status):
        ka = classify_jv(a)
        ks = classify_jv(st)
        model_internal = m.get("error") in ("Internal", "Fuel")
        key = ("ok" if "tokens" in a else a.get("error", ka or "?"))
        outcome[key] = outcome.get(key, 0) + 1
        if ka in ("panic", "abort", "internal"):
            report.failure("c11-lexer-%s" % ka, "Lexer::lex: %s on this source (model says %s): %s" % (ka, m.get("error", "tokens"), json.dumps(a)[:300]),
                           {"op": "lex", "src": s, "answer": a})
        elif model_internal:
            report.failure("c11-lexer-model-internal", "the lexer model reaches an assertion / internal_error site but the implementation answered normally",
                           {"correspondence": "lexer totality (vlib/c11.py S1)", "op": "lex", "src": s, "impl": a, "model": m}, no_input=True)
        if ks in ("panic", "abort", "internal"):
            report.failure("c11-compile-%s:%s" % (ks, (st.get("panic") or st.get("message") or "")[:60]),
                           "compile (lex, parse, analyze, dump, format): %s: %s" % (ks, json.dumps(st)[:400]),
                           {"op": "status", "src": s, "answer": st})
    stats["s1_sources"] = len(srcs)
    stats["s1_lexer_outcomes"] = outcome

    # unindent over an exhaustive whitespace alphabet
    k = 7 if tier == "quick" else 8
    texts = list(G.exhaustive(UNINDENT_ALPHABET, k))
    res = jv.pbatch([{"op": "unindent", "src": t} for t in texts], chunk=20000)
    mres = dr.pbatch([{"op": "unindent", "src": t} for t in texts], chunk=20000)
    for t, r, m in zip(texts, res, mres):
        kk = classify_jv(r)
        if kk:
            report.failure("c11-unindent-%s" % kk, "unindent(%r): %s" % (t, json.dumps(r)[:200]), {"op": "unindent", "src": t, "answer": r})
        elif r.get("text") != m.get("text"):
            report.failure("c11-unindent-model", "Lean unindent model and unindent.rs disagree", {"correspondence": "unindent (vlib/c11.py S1)", "op": "unindent", "src": t, "impl": r, "model": m}, no_input=True)
    # the same with carriage returns (files with CRLF line ends)
    texts_cr = list(G.exhaustive([" ", "a", "\r\n", "\n", "\t", "\r"], 5 if tier == "quick" else 6))
    res = jv.pbatch([{"op": "unindent", "src": t} for t in texts_cr], chunk=20000)
    mres = dr.pbatch([{"op": "unindent", "src": t} for t in texts_cr], chunk=20000)
    for t, r, m in zip(texts_cr, res, mres):
        kk = classify_jv(r)
        if kk:
            report.failure("c11-unindent-%s" % kk, "unindent(%r): %s" % (t, json.dumps(r)[:200]), {"op": "unindent", "src": t, "answer": r})
        elif r.get("text") != m.get("text"):
            report.failure("c11-unindent-model", "Lean unindent model and unindent.rs disagree", {"correspondence": "unindent (vlib/c11.py S1)", "op": "unindent", "src": t, "impl": r, "model": m}, no_input=True)
    # and with white space that is not a blank or a tab (no-break space, em space, ideographic space): wider than one byte
    texts_u = list(G.exhaustive([" ", "a", "\n", "\u00a0", "\u2003", "\u3000", "\t"], 4 if tier == "quick" else 5))
    res = jv.pbatch([{"op": "unindent", "src": t} for t in texts_u], chunk=20000)
    mres = dr.pbatch([{"op": "unindent", "src": t} for t in texts_u], chunk=20000)
    for t, r, m in zip(texts_u, res, mres):
        kk = classify_jv(r)
        if kk:
            report.failure("c11-unindent-%s" % kk, "unindent(%r): %s" % (t, json.dumps(r)[:200]), {"op": "unindent", "src": t, "answer": r})
            break
        elif r.get("text") != m.get("text"):
            report.failure("c11-unindent-model", "Lean unindent model and unindent.rs disagree", {"correspondence": "unindent (vlib/c11.py S1)", "op": "unindent", "src": t, "impl": r, "model": m}, no_input=True)
            break
    stats["s1_unindent_texts"] = len(texts) + len(texts_cr) + len(texts_u)

    # string literal cooking: escape sequences, unicode escapes, indented strings (model vs parser)
    COOK = ["a", "\\", "n", "t", "r", "\"", "u", "{", "}", "0", "1", "F", "f", "g", "D", "8", "\n", " ", "\u00e9", "'", "\r\n"]
    contents = list(G.exhaustive(COOK, 3 if tier == "quick" else 4))
    rngc = random.Random(report.seed ^ 0xc00c)
    contents += ["".join(rngc.choice(COOK) for _ in range(rngc.randint(4, 12))) for _ in range(4000 if tier == "quick" else 60000)]
    contents += ["\\u{%s}" % h for h in ["0", "41", "D7FF", "D800", "DFFF", "E000", "10FFFF", "110000", "FFFFFF", "1234567", "", "g", "00000041", "1F600"]]
    lits = []
    for c in contents:
        lits.append((c, False, True, "x := \"%s\"\n" % c))
        if "\n" in c:
            lits.append((c, True, True, "x := \"\"\"%s\"\"\"\n" % c))
            lits.append((c, True, False, "x := \'\'\'%s\'\'\'\n" % c))
    comp = jv.pbatch([{"op": "compile", "src": t} for _, _, _, t in lits], chunk=2000)
    lexd = jv.pbatch([{"op": "lex", "src": t} for _, _, _, t in lits], chunk=2000)
    cook_reqs, cook_cases = [], []
    for (c, ind, esc, t), r, lx in zip(lits, comp, lexd):
        kk = classify_jv(r)
        if kk:
            report.failure("c11-cook-%s" % kk, "string literal %r: %s" % (t, json.dumps(r)[:200]), {"op": "compile", "src": t, "answer": r})
            continue
        # only literals that are ONE string token with exactly this content (no early terminator inside)
        if "tokens" not in lx:
            continue
        st = [k for k in lx["tokens"] if k["kind"] == "StringToken"]
        dl = 3 if ind else 1
        if len(st) != 1 or st[0]["length"] != len(c.encode("utf-8")) + 2 * dl or len([k for k in lx["tokens"] if k["kind"] not in ("Whitespace", "Eol", "Eof")]) != 3:
            continue
        if not ind and c.startswith('""'):
            continue          # `"` + `""…` opens a triple-quoted literal: not the literal this case is about
        cook_reqs.append({"op": "cook", "raw": c, "indented": ind, "escapes": esc})
        cook_cases.append((t, r))
    cook_model = dr.pbatch(cook_reqs, chunk=5000)
    cook_out = {}
    for (t, r), m in zip(cook_cases, cook_model):
        if "dump" in r:
            got = {"cooked": r["dump"]["assignments"]["x"]["value"]}
        else:
            got = {"error": r.get("error")}
        key = got.get("error", "ok")
        cook_out[key] = cook_out.get(key, 0) + 1
        # the statement's own reading of the escapes (README "Strings"): \n \r \t \\ \" \u{…} and a backslash at the end of
        # a line - in a file with CRLF line ends that end is `\r\n` - which swallows the line end
        want = py_cook(t)
        if want is not None and got != want:
            report.failure("c11-cook-statement", "a string literal does not cook to what the README defines",
                           {"op": "compile", "src": t, "impl": got, "readme": want})
            continue
        if m.get("error") == "UNWRAP-FAILED":
            report.failure("c11-cook-unwrap", "the cooking model reaches the unwrap on this literal", {"op": "compile", "src": t, "impl": got}, no_input=True)
        elif got != m:
            report.failure("c11-cook-model", "Lean cook_string model and parser.rs disagree", {"correspondence": "string cooking (vlib/c11.py S1)", "op": "compile", "src": t, "impl": got, "model": m}, no_input=True)
    stats["s1_cooked_literals"] = len(cook_cases)
    stats["s1_cook_outcomes"] = cook_out

    # ---- S3 ------------------------------------------------------------------------------------
    depths = [256, 1000, 30000] + ([100000] if thorough else [])
    deep_out = {}
    for n in depths:
        g = deep_sources(n)
        res = jv.batch([{"op": "status", "src": s} for s in g.values()])
        for kname, r in zip(g, res):
            kk = classify_jv(r)
            deep_out.setdefault(kname, {})[str(n)] = kk or ("ok" if r.get("ok") else r.get("error", "?"))
            if kk:
                sig = "c11-stack-overflow:%s" % kname if kk == "abort" else "c11-deep-%s:%s" % (kk, kname)
                report.failure(sig, "%s nested / chained %d times: %s %s" % (kname, n, kk, json.dumps(r)[:200]),
                               {"op": "status", "kind": kname, "n": n, "src_head": list(g.values())[list(g).index(kname)][:200]})
    stats["s3_deep"] = deep_out

    # ---- S2 ------------------------------------------------------------------------------------
    rng = random.Random(report.seed ^ 0x22)
    base_files = {"justfile": ROOT_JUSTFILE % {"vsh": C.VSH}, "m.just": MOD_JUSTFILE % {"vsh": C.VSH}, ".env": "A=1\n"}
    cases = []
    ops = OPERANDS if thorough else OPERANDS
    for t in OPTION_TEMPLATES:
        k = sum(1 for a in t if "@" in a)
        combos = list(itertools.product(ops, repeat=k)) if k == 1 else [tuple(rng.choice(ops) for _ in range(k)) for _ in range(40 if not thorough else 300)]
        for combo in combos:
            it = iter(combo)
            argv = [a.replace("@", next(it)) if "@" in a else a for a in t]
            cases.append({"kind": "cli", "files": base_files, "argv": argv})
    for argv in PLAIN_ARGVS:
        cases.append({"kind": "cli", "files": base_files, "argv": argv})
    for f in TIMESTAMP_FORMATS:
        cases.append({"kind": "cli", "files": base_files, "argv": ["--timestamp", "--timestamp-format", f, "r"]})
        cases.append({"kind": "cli", "files": base_files, "argv": ["r"], "env": {"JUST_TIMESTAMP": "true", "JUST_TIMESTAMP_FORMAT": f}})
    # environment variables with hostile values
    for var in ENV_VARS:
        vals = ops if thorough else [o for o in ops if len(o) < 100][::2] + ["x" * 5000]
        for val in vals:
            if var in ("PATH", "HOME") and val == "":
                continue
            cases.append({"kind": "cli", "files": base_files, "argv": rng.choice(ENV_ARGVS), "env": {var: val}})
    n_cli = len(cases)
    # functions with hostile arguments
    functions, _, _, _, _ = E.extract()
    arity = {"Nullary": [0], "Unary": [1], "UnaryOpt": [1, 2], "UnaryPlus": [1, 2, 3], "Binary": [2], "BinaryPlus": [2, 3], "Ternary": [3]}
    per_fn = 40 if not thorough else 300
    skip = {"choose"}  # second argument is an alphabet, first a length: bounded separately below
    for name, cls in (functions or []):
        for _ in range(per_fn if cls != "Nullary" else 1):
            n = rng.choice(arity[cls])
            args = [rng.choice(ARG_POOL) for _ in range(n)]
            if name in skip:
                args = [rng.choice(["0", "5", "-1", "", "a", "1.5"]), rng.choice(["", "a", "ab", "aa", "\u00e9"])]
            text = "x := %s(%s)\n" % (name, ", ".join("'%s'" % a.replace("'", "") for a in args))
            cases.append({"kind": "fn:" + name, "files": {"justfile": text}, "argv": ["--evaluate", "x"]})
    n_fn = len(cases) - n_cli
    # parameter shapes x argument counts
    shapes = []
    for L in (1, 2, 3):
        all_l = list(itertools.product(PARAM_SHAPES, repeat=L))
        if L == 3 and not thorough:
            all_l = rng.sample(all_l, 200)
        shapes += all_l
    for shape in shapes:
        params = " ".join(p.format(i=i, prev=max(i - 1, 0), next=i + 1) for i, p in enumerate(shape))
        text = "set shell := [\"%s\", \"-c\"]\ng := 'G'\nr %s:\n  echo {{p0}}\ncaller: (r 'x')\ncaller2: (r 'x' 'y')\n" % (C.VSH, params)
        for argv in (["r"], ["r", "1"], ["r", "1", "2"], ["r", "1", "2", "3"], ["caller"], ["caller2"], ["--show", "r"], ["--usage", "r"]):
            cases.append({"kind": "params", "files": {"justfile": text}, "argv": argv})
    n_par = len(cases) - n_cli - n_fn
    # recipe line shapes (sigils, shebangs, continuations), linewise and as first line
    for shape in LINE_SHAPES:
        for first in (True, False):
            body = ("  %s\n  echo tail\n" % shape) if first else ("  echo head\n  %s\n" % shape)
            for pre in ("", "set positional-arguments\n", "[script('%s')]\n" % C.VSH, "[no-exit-message]\n"):
                head = pre if pre.startswith("[") else ""
                sets = pre if pre.startswith("set") else ""
                text = "set shell := [\"%s\", \"-c\"]\n%s%sr:\n%s" % (C.VSH, sets, head, body)
                for argv in (["r"], ["--dry-run", "r"], ["--show", "r"], ["--dump"]):
                    cases.append({"kind": "line:" + shape, "files": {"justfile": text}, "argv": argv})
    n_line = len(cases) - n_cli - n_fn - n_par
    # a reference to itself, to a partner that refers back, and to nothing, at every child position of every expression
    # constructor (all argument positions of every function class included), in an assignment, a parameter default and an
    # interpolation: whatever the analysis makes of it, evaluating must end with an ordinary error
    from . import c03 as K3
    from .exprs import Var as _Var, pr as _pr
    for wn, w in K3.wrappers().items():
        for tag, text in (
                ("self", "x := %s\n" % _pr(w(_Var("x")))),
                ("mutual", "p := %s\nq := p\n" % _pr(w(_Var("q")))),
                ("undefined", "y := %s\n" % _pr(w(_Var("nosuch")))),
                ("default", "r a=(%s):\n  echo {{a}}\n" % _pr(w(_Var("a")))),
                ("interp", "r:\n  echo {{%s}}\n" % _pr(w(_Var("nosuch"))))):
            text = "set shell := [\"%s\", \"-c\"]\nset unstable\n" % C.VSH + text + ("" if "r" in text.split(":")[0].split() or "\nr" in text else "r:\n  echo {{%s}}\n" % text.split(" ")[0])
            for argv in (["--evaluate"], ["r"], ["--dump"]):
                cases.append({"kind": "ref:%s:%s" % (tag, wn), "files": {"justfile": text}, "argv": argv})
    n_ref = len(cases) - n_cli - n_fn - n_par - n_line
    # hostile settings, attributes and environment files
    sh = "set shell := [\"%s\", \"-c\"]\n" % C.VSH
    body = "r a='d' *rest:\n  echo {{a}} {{rest}}\ns:\n  #!%s\n  echo s\n" % C.VSH
    hostile = [
        (sh + "set positional-arguments\n" + body, {}), (sh + "set dotenv-load\n" + body, {".env": "A=1\nB\n=3\n\x00\n'\n"}),
        (sh + "set dotenv-load\n" + body, {".env": "A='unterminated\n"}), (sh + "set dotenv-load\n" + body, {".env": "export A=1\nA=${A}${NOPE}\n"}),
        (sh + "set dotenv-filename := ''\n" + body, {}), (sh + "set dotenv-path := ''\n" + body, {}), (sh + "set dotenv-path := '/'\n" + body, {}),
        (sh + "set dotenv-required\n" + body, {}), (sh + "set tempdir := 'nonexistent/dir'\n" + body, {}), (sh + "set tempdir := ''\n" + body, {}),
        (sh + "set working-directory := 'nonexistent'\n" + body, {}), (sh + "set working-directory := ''\n" + body, {}),
        ("set shell := ['']\n" + body, {}), ("set shell := ['nonexistent-shell-xyz']\n" + body, {}), ("set shell := ['/']\n" + body, {}),
        (sh + "set script-interpreter := ['']\nset unstable\n[script]\nq:\n  echo\n" + body, {}),
        (sh + "set unstable\n[script('')]\nq:\n  echo\n" + body, {}), (sh + "set unstable\n[script('/')]\nq:\n  echo\n" + body, {}),
        (sh + "[working-directory('nonexistent')]\nq:\n  echo\n" + body, {}), (sh + "[working-directory('')]\nq:\n  echo\n" + body, {}),
        (sh + "[confirm('')]\nq:\n  echo\n" + body, {}), (sh + "[confirm]\nq:\n  echo\n" + body, {}), (sh + "[doc('')]\nq:\n  echo\n" + body, {}),
        (sh + "[group('')]\nq:\n  echo\n" + body, {}), (sh + "set unstable\n[script]\n[extension('')]\nq:\n  echo\n" + body, {}),
        (sh + "set unstable\n[script]\n[extension('/../x')]\nq:\n  echo\n" + body, {}), (sh + "set export\nunexport a\n" + body, {}),
        (sh + "set quiet\nset fallback\n" + body, {}), (sh + "set ignore-comments\nq:\n  # {{a}}\n  #\\\n  x\n" + body, {}),
        (sh + "q $a $b='x' +$c='y':\n  echo\n" + body, {}), (sh + "export a := 'x'\nunexport b\n" + body, {}),
        (sh + "mod? nothere\nimport? 'nothere.just'\n" + body, {}), (sh + "mod m 'm.just'\n" + body, {"m.just": "mod n 'm.just'\n"}),
        (sh + "import 'a.just'\n" + body, {"a.just": "import 'justfile'\n"}), (sh + "mod m\n" + body, {"m/justfile": "x:\n", "m.just": "x:\n"}),
        # module paths that lead out of the directory of the file that names them, with one, two and no candidate files
        # (`@cwd`: the justfile is written to that subdirectory and just runs there)
        (sh + "mod m '../x'\n" + body, {"@cwd": "w", "x/mod.just": "x:\n", "x/justfile": "x:\n"}), (sh + "mod m '../x'\n" + body, {"@cwd": "w", "x/mod.just": "x:\n"}),
        (sh + "mod m '../x'\n" + body, {"@cwd": "w", "x/.keep": ""}), (sh + "mod m 'd/../../x'\n" + body, {"@cwd": "w", "x/JUSTFILE": "x:\n", "x/.Justfile": "x:\n"}),
        (sh + "mod m '..'\n" + body, {"@cwd": "w"}), (sh + "mod m '.'\n" + body, {}), (sh + "mod m '/'\n" + body, {}), (sh + "import '..'\n" + body, {"@cwd": "w"}),
        (sh + "alias q := r\nalias q2 := q\n" + body, {}), (sh + "q: (r 'a' 'b' 'c') (s)\n" + body, {}),
        (sh + "x := `exit 1`\n" + body, {}), (sh + "x := shell('exit 3')\n" + body, {}), (sh + "x := env('NOPE_%d')\n" % 1 + body, {}),
        (sh + "x := error('boom')\n" + body, {}), (sh + "x := assert('a' == 'b', 'm')\n" + body, {}), (sh + "x := if 'a' =~ '(' { 'b' } else { 'c' }\n" + body, {}),
        (sh + "x := require('nonexistent-binary-xyz')\n" + body, {}), (sh + "set unstable\nx := which('')\n" + body, {}),
        (sh + "x := read('nonexistent')\n" + body, {}), (sh + "x := read('/')\n" + body, {}), (sh + "x := blake3_file('/')\n" + body, {}),
        (sh + "x := sha256_file('')\n" + body, {}), (sh + "x := canonicalize('')\n" + body, {}), (sh + "x := absolute_path('')\n" + body, {}),
        (sh + "x := parent_directory('/')\n" + body, {}), (sh + "x := file_name('')\n" + body, {}), (sh + "x := without_extension('')\n" + body, {}),
        (sh + "x := choose('3', '')\n" + body, {}), (sh + "x := choose('-1', 'ab')\n" + body, {}), (sh + "x := choose('3', 'aa')\n" + body, {}),
        (sh + "x := semver_matches('x', 'y')\n" + body, {}), (sh + "x := replace_regex('a', '(', 'b')\n" + body, {}),
        (sh + "x := replace_regex('aaa', 'a', '$9${x')\n" + body, {}), (sh + "x := datetime('%s %:z %#z %')\n" + body, {}),
        (sh + "x := encode_uri_component('\u00e9 /?')\n" + body, {}), (sh + "x := trim_start_matches('aaa', '')\n" + body, {}),
        (sh + "x := join('a')\n" + body, {}), (sh + "x := join('/', '/', '..', '')\n" + body, {}), (sh + "x := 'a' / ''\n" + body, {}),
    ]
    for text, files in hostile:
        fl = dict(files)
        sub = fl.pop("@cwd", None)
        fl[(sub + "/justfile") if sub else "justfile"] = text
        for argv in (["r"], ["r", "1", "2", "3"], ["s"], ["q"], ["--evaluate"], ["--list"], ["--dump"], ["--dump", "--dump-format", "json"], ["--summary"],
                     ["--dry-run", "r"], ["--choose", "--chooser", C.VSH], ["--command", C.VSH, "x"], ["--show", "q"], ["m::x"], ["--usage", "r"]):
            cases.append({"kind": "hostile", "files": fl, "argv": argv, "cwd": sub})
    n_host = len(cases) - n_cli - n_fn - n_par - n_line - n_ref
    results = C.pmap(run_cli_case, cases)
    for c, (kind, text) in zip(cases, results):
        if kind is None:
            continue
        if c["kind"].startswith("line:") and "bad shebang line" in text:
            sig = "c11-internal:bad-shebang"
        elif c["kind"].startswith("fn:"):
            sig = "c11-%s:%s" % (kind.split()[0], c["kind"])
        elif c["kind"] == "cli":
            sig = "c11-%s:cli:%s%s" % (kind.split()[0], " ".join(a for a in c["argv"] if a.startswith("--"))[:60], ":" + ",".join(c["env"]) if c.get("env") else "")
        else:
            sig = "c11-%s:%s" % (kind.split()[0], c["kind"])
        report.failure(sig, "%s: just %r env=%r -> %s" % (kind, c["argv"], c.get("env"), text[-300:]),
                       {"op": "cli", "files": c["files"], "argv": c["argv"], "env": c.get("env"), "observed": kind, "output": text})
    stats.update({"s2_cli_cases": n_cli, "s2_function_cases": n_fn, "s2_parameter_cases": n_par, "s2_line_cases": n_line, "s2_reference_position_cases": n_ref, "s2_hostile_setting_cases": n_host,
                  "s2_functions": len(functions or [])})

    report.coverage.update({"inputs": len(srcs) + len(texts) + len(cases) + sum(len(deep_sources(1)) for _ in depths)})
    report.coverage.update(stats)
    report.assumptions += [
        "only the lexer is covered by theorems; parser, analyzer, evaluator, command line and run time are covered by enumeration (testing), listed with their counts",
        "in-process calls run on an 8 MiB thread like the binary's main thread, built with opt-level 1: stack-overflow thresholds differ from a release build",
        "hangs are detected by a 20 s (binary) / 300 s per batch (in-process) timeout",
        "platform-specific paths (Windows cygpath, signals) are not exercised",
    ]
    C.finish(report)


def replay(report, path):
    body = json.load(open(path))
    rp = body["replay"]
    C.build_jv()
    C.build_just()
    C.build_vsh()
    report.coverage.update({"obligations": 1, "discharged": 1, "checker_cmd": "replay", "trusted_base": []})
    if rp.get("op") == "cli":
        kind, text = run_cli_case({"files": rp["files"], "argv": rp["argv"], "env": rp.get("env")})
        print(kind, text)
        if kind:
            report.failure(body["signature"], "replay still fails: " + kind, rp)
    elif "src" in rp:
        r = C.Jv().batch([{"op": rp["op"], "src": rp["src"]}])[0]
        print(json.dumps(r)[:1000])
        if classify_jv(r):
            report.failure(body["signature"], "replay still fails", rp)
    C.finish(report)
