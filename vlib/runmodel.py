"""Generator / printer / executor for the Run model (shared by C01, C02, C14)."""
import json
import os
import re

from . import common as C

WORDS = ["a", "b", "c", "x", "yy", "z1", "k-k", "w.w", "a b", "b c", " "]


def lit(s):
    return {"lit": {"s": s}}


def param(i):
    return {"param": {"i": i}}


def cat(a, b):
    return {"cat": {"a": a, "b": b}}


def bt(c):
    return {"bt": {"cmd": c}}


class Gen:
    """Random acyclic program at the Run model's level of abstraction."""

    def __init__(self, rng, max_recipes=6, faults=False, confirm=False, scripts=True, bts=True,
                 quiet_features=False, empty_cmds=True):
        self.r = rng
        self.max_recipes = max_recipes
        self.faults = faults
        self.confirm = confirm
        self.scripts = scripts
        self.bts = bts
        self.quiet_features = quiet_features
        self.empty_cmds = empty_cmds
        self.nbt = 0
        self.bt_keys = []

    def new_bt(self):
        k = "[B%d]" % self.nbt
        self.nbt += 1
        self.bt_keys.append(k)
        return bt(k)

    def aexpr(self, nparams, depth=0, allow_bt=True):
        r = self.r
        x = r.random()
        if depth < 2 and x < 0.25:
            return cat(self.aexpr(nparams, depth + 1, allow_bt), self.aexpr(nparams, depth + 1, allow_bt))
        if nparams > 0 and x < 0.65:
            return param(r.randrange(nparams))
        if self.bts and allow_bt and x < 0.72:
            return self.new_bt()
        return lit(r.choice(WORDS))

    def program(self):
        r = self.r
        n = r.randint(1, self.max_recipes)
        recipes = []
        # recipe i may only depend on recipes j > i  (acyclic by construction)
        nparams = [r.choice([0, 0, 1, 1, 2]) for _ in range(n)]
        for i in range(n):
            params = []
            seen_default = False
            for p in range(nparams[i]):
                if seen_default or r.random() < 0.25:
                    seen_default = True
                    params.append(self.aexpr(p, 1))
                else:
                    params.append(None)
            deps = []
            for kind in ("priors", "subs"):
                ds = []
                if i + 1 < n:
                    k = r.choice([0, 0, 1, 1, 2, 3]) if kind == "priors" else r.choice([0, 0, 0, 1, 2])
                    for _ in range(k):
                        t = r.randrange(i + 1, n)
                        tp = recipes_params_count = None
                        ds.append(t)
                deps.append(ds)
            recipes.append({"params": params, "_priors": deps[0], "_subs": deps[1]})
        # second pass: dependency arguments (need target parameter counts)
        for i, rc in enumerate(recipes):
            for kind in ("priors", "subs"):
                out = []
                for t in rc.pop("_" + kind):
                    tparams = recipes[t]["params"]
                    required = sum(1 for p in tparams if p is None)
                    cnt = r.randint(required, len(tparams))
                    out.append({"target": t, "args": [self.aexpr(nparams[i], 1) for _ in range(cnt)]})
                rc[kind] = out
            script = self.scripts and r.random() < 0.2
            body = []
            nlines = r.choice([1, 1, 2, 2, 3])
            # a script recipe is started by its shebang line or, two times in five, by a `[script(...)]` attribute
            script_attr = script and r.random() < 0.4
            if script:
                if not script_attr:
                    body.append({"quiet": False, "infallible": False, "frags": [lit("#!" + C.VSH)]})
                for l in range(nlines):
                    frags = [lit("[S%d.%d]" % (i, l))]
                    for p in range(nparams[i]):
                        frags += [lit(" "), param(p)]
                    if r.random() < 0.2:
                        frags += [lit(" "), self.aexpr(nparams[i], 1)]
                    body.append({"quiet": False, "infallible": False, "frags": frags})
            else:
                for l in range(nlines):
                    if self.empty_cmds and nparams[i] > 0 and r.random() < 0.05:
                        frags = [param(0)]  # empty when the argument is the empty word
                    else:
                        frags = [lit("[T%d.%d]" % (i, l))]
                        for p in range(nparams[i]):
                            frags += [lit(" "), param(p)]
                        if r.random() < 0.2:
                            frags += [lit(" "), self.aexpr(nparams[i], 1)]
                    q = self.quiet_features and r.random() < 0.4
                    inf = (self.faults or self.quiet_features) and r.random() < 0.3
                    body.append({"quiet": q, "infallible": inf, "frags": frags})
            rc["body"] = body
            rc["script"] = script
            rc["scriptAttr"] = script_attr
            rc["confirm"] = self.confirm and r.random() < 0.3
            rc["quiet"] = self.quiet_features and r.random() < 0.3
            rc["noQuiet"] = self.quiet_features and r.random() < 0.3
        assigns = []
        if self.bts:
            for _ in range(r.choice([0, 0, 1, 2])):
                assigns.append(self.new_bt()["bt"]["cmd"])
        return {"assigns": assigns, "recipes": recipes}

    def invocations(self, prog):
        r = self.r
        n = len(prog["recipes"])
        k = r.choice([1, 1, 2, 2, 3, 4])
        invs = []
        pool = []
        for j in range(k):
            if pool and r.random() < 0.35:
                inv = r.choice(pool)  # repeat an earlier invocation exactly
                ri, args = inv
                # only legal (unambiguous) when all parameters are given
                if len(args) != len(prog["recipes"][ri]["params"]):
                    continue
                invs.append([ri, list(args)])
                continue
            ri = r.randrange(n) if r.random() < 0.7 else 0
            params = prog["recipes"][ri]["params"]
            last = j == k - 1
            required = sum(1 for p in params if p is None)
            cnt = r.randint(required, len(params)) if last else len(params)
            args = [r.choice(WORDS + ([""] if self.empty_cmds else [])) for _ in range(cnt)]
            invs.append([ri, args])
            pool.append([ri, args])
        # a non-last invocation must carry all its parameters, otherwise the greedy grouping differs
        for j, (ri, args) in enumerate(invs[:-1]):
            assert len(args) == len(prog["recipes"][ri]["params"])
        return invs


# ---------------------------------------------------------------------------------------------
# printing


def print_aexpr(e, top=False):
    if "lit" in e:
        return "'" + e["lit"]["s"] + "'"
    if "param" in e:
        return "p%d" % e["param"]["i"]
    if "bt" in e:
        return "`" + e["bt"]["cmd"] + "`"
    a, b = e["cat"]["a"], e["cat"]["b"]
    return "(" + print_aexpr(a) + " + " + print_aexpr(b) + ")"


def print_dep_arg(e):
    # a bare identifier followed by "(" would parse as a function call
    if "param" in e:
        return "(" + print_aexpr(e) + ")"
    return print_aexpr(e)


def print_line(l):
    s = ""
    if l["quiet"]:
        s += "@"
    if l["infallible"]:
        s += "-"
    for f in l["frags"]:
        if "lit" in f:
            s += f["lit"]["s"]
        else:
            s += "{{" + print_aexpr(f) + "}}"
    return s


def print_prog(prog, cfg, extra_settings=""):
    out = ['set shell := ["%s", "-c"]' % C.VSH]
    if cfg.get("setQuiet"):
        out.append("set quiet")
    if extra_settings:
        out.append(extra_settings)
    if any(rc.get("scriptAttr") for rc in prog["recipes"]):
        out.append("set unstable")
    for i, c in enumerate(prog["assigns"]):
        out.append("a%02d := `%s`" % (i, c))
    out.append("")
    for i, rc in enumerate(prog["recipes"]):
        if rc["confirm"]:
            out.append("[confirm]")
        if rc["noQuiet"]:
            out.append("[no-quiet]")
        if rc.get("scriptAttr"):
            out.append("[script('%s')]" % C.VSH)
        head = ("@" if rc["quiet"] else "") + "r%d" % i
        for p, d in enumerate(rc["params"]):
            head += " p%d" % p
            if d is not None:
                head += "=" + print_aexpr(d)
        head += ":"
        for d in rc["priors"]:
            head += " (r%d%s)" % (d["target"], "".join(" " + print_dep_arg(a) for a in d["args"]))
        if rc["subs"]:
            head += " &&"
            for d in rc["subs"]:
                head += " (r%d%s)" % (d["target"], "".join(" " + print_dep_arg(a) for a in d["args"]))
        out.append(head)
        for l in rc["body"]:
            out.append("  " + print_line(l))
        out.append("")
    if cfg.get("aliasMask"):
        for i in range(len(prog["recipes"])):
            out.append("alias al%d := r%d" % (i, i))
        out.append("")
    return "\n".join(out)


def cmdline(cfg, invs):
    argv = []
    if cfg.get("dryRun"):
        argv.append("--dry-run")
    if cfg.get("verbose"):
        argv.append("--verbose")
    if cfg.get("quiet"):
        argv.append("--quiet")
    if cfg.get("yes"):
        argv.append("--yes")
    if cfg.get("noDeps"):
        argv.append("--no-deps")
    mask = cfg.get("aliasMask", 0)
    for k, (ri, args) in enumerate(invs):
        # bit k of the mask: name the recipe through its alias `al<i>` (same recipe, same run-once key)
        argv.append(("al%d" if (mask >> (k % 8)) & 1 else "r%d") % ri)
        argv += args
    return argv


def full_cfg(**kw):
    cfg = {"dryRun": False, "verbose": False, "quiet": False, "setQuiet": False, "yes": False, "noDeps": False}
    cfg.update(kw)
    return cfg


# ---------------------------------------------------------------------------------------------
# running the implementation

PROMPT_RE = re.compile(r"Run recipe `r(\d+)`\? ")


def status_to_action(st):
    if st == "ok":
        return "exit:0"
    if "code" in st:
        return "exit:%d" % st["code"]["n"]
    return "sig:%d" % st["signal"]["n"]


def vsh_plan(status, outs):
    """status: list of (key, Status json); outs: list of (key, text).  One vsh plan entry per key."""
    keys = []
    acts = {}
    for k, o in outs:
        acts.setdefault(k, []).append("out:" + C.hexs(o))
        if k not in keys:
            keys.append(k)
    for k, st in status:
        acts.setdefault(k, []).append(status_to_action(st))
        if k not in keys:
            keys.append(k)
    return ";".join("%s=%s" % (k, ",".join(acts[k])) for k in keys)


ACCEPT_TEXTS = ["y", "yes", "Y", "YES", " y", "Yes  ", "yEs", "\ty\t"]
DECLINE_TEXTS = ["n", "no", "", "ye", "yess", "yes please", "yup", "y/n", "maybe", "yesterday", "ja", "1", "y y", "N", "yes.", "true"]


def run_impl(workdir, justfile_text, argv, status, outs, answers, timeout=20, extra_env=None):
    """Run just on the program; returns dict(events=[...], exit=rc, stderr=str, stdout=str)."""
    os.makedirs(workdir, exist_ok=True)
    with open(os.path.join(workdir, "justfile"), "w") as f:
        f.write(justfile_text)
    logp = os.path.join(workdir, "vsh.log")
    errp = os.path.join(workdir, "stderr")
    for p in (logp, errp):
        if os.path.exists(p):
            os.unlink(p)
    open(errp, "w").close()
    env = dict(C.BASE_ENV)
    env.update({"HOME": workdir, "TMPDIR": workdir, "VSH_LOG": logp, "VSH_MARK": errp,
                "VSH_PLAN": vsh_plan(status, outs)})
    if extra_env:
        env.update(extra_env)
    # the k-th answer is accepted / declined with a text that depends on k only (so that a replay types the same thing):
    # accepted are `y` and `yes` in any letter case with surrounding blanks, everything else declines
    stdin = "".join((ACCEPT_TEXTS[k % len(ACCEPT_TEXTS)] if a else DECLINE_TEXTS[k % len(DECLINE_TEXTS)]) + "\n" for k, a in enumerate(answers)).encode()
    import subprocess
    with open(errp, "ab") as ef:
        try:
            p = subprocess.run([C.JUST] + argv, cwd=workdir, env=env, input=stdin, stdout=subprocess.PIPE,
                               stderr=ef, timeout=timeout)
            rc, out = p.returncode, p.stdout
        except subprocess.TimeoutExpired as ex:
            rc, out = None, ex.stdout or b""
    stderr = open(errp, "rb").read().decode("utf-8", "replace")
    entries = C.read_vsh_log(logp)
    return {"events": parse_events(stderr, entries), "exit": rc, "stderr": stderr,
            "stdout": out.decode("utf-8", "replace"), "log": entries}


def classify(entry):
    argv = entry["argv"]
    if len(argv) >= 3 and argv[1] == "-c":
        cmd = argv[2]
        if cmd.startswith("[B"):
            return ["bt", cmd]
        return ["spawn", cmd]
    if entry["script"] is not None:
        return ["script", [l for l in entry["script"].split("\n") if l != ""]]
    return ["unknown", argv]


def parse_events(stderr, entries):
    text = PROMPT_RE.sub(lambda m: "\n\x02PROMPT %s\n" % m.group(1), stderr)
    evs = []
    li = 0
    for line in text.split("\n"):
        if line == "":
            continue
        if line == "\x01SPAWN":
            if li < len(entries):
                evs.append(classify(entries[li]))
                li += 1
            else:
                evs.append(["spawn-without-log"])
            continue
        if line.startswith("\x02PROMPT "):
            evs.append(["prompt", int(line.split()[1])])
            continue
        if line.startswith("===> Running recipe `r"):
            evs.append(["body", int(line.split("`r")[1].split("`")[0])])
            continue
        if line.startswith("===> "):
            continue
        if line.startswith("error: "):
            break
        evs.append(["echo", line])
    while li < len(entries):
        evs.append(classify(entries[li]) + ["unordered"])
        li += 1
    return evs


def canon_model_events(evs, loquacious=False):
    out = []
    for e in evs:
        if "body" in e:
            # ghost label, observable only as the "===> Running recipe" line of --verbose
            if loquacious:
                out.append(["body", e["body"]["recipe"]])
            continue
        if "bt" in e:
            out.append(["bt", e["bt"]["cmd"]])
        elif "echo" in e:
            out.append(["echo", e["echo"]["text"]])
        elif "spawn" in e:
            out.append(["spawn", e["spawn"]["cmd"]])
        elif "script" in e:
            out.append(["script", [l for l in e["script"]["text"].split("\n") if l != ""]])
        elif "prompt" in e:
            out.append(["prompt", e["prompt"]["recipe"]])
    return out


def model_request(prog, cfg, invs, status, outs, answers, op="run"):
    return {"op": op, "prog": prog, "cfg": cfg, "invs": invs,
            "status": [[k, st] for k, st in status], "outs": [[k, o] for k, o in outs], "ans": answers}


def run_cases(cases, driver=None, extra_settings=""):
    """cases: list of dict(prog,cfg,invs,status,outs,answers).  Returns list of (model, impl) results where
    model = {"events": canonical, "exit": n} and impl = run_impl() output."""
    driver = driver or C.Driver()
    reqs = [model_request(c["prog"], c["cfg"], c["invs"], c["status"], c["outs"], c["answers"]) for c in cases]
    resp = driver.pbatch(reqs, chunk=500)

    def one(c):
        with C.scratch("run") as d:
            return run_impl(d, print_prog(c["prog"], c["cfg"], extra_settings), cmdline(c["cfg"], c["invs"]),
                            c["status"], c["outs"], c["answers"])

    impl = C.pmap(one, cases)
    out = []
    for m, r in zip(resp, impl):
        if "fatal" in m:
            raise C.BuildError("model driver: " + m["fatal"])
        loq = c_loq(cases[len(out)])
        out.append(({"events": canon_model_events(m["events"], loq), "exit": m["exit"], "raw": m["events"]}, r))
    return out


def c_loq(c):
    return bool(c["cfg"].get("verbose")) and not c["cfg"].get("quiet")


def describe_case(c):
    return {"justfile": print_prog(c["prog"], c["cfg"]), "argv": cmdline(c["cfg"], c["invs"]),
            "status": c["status"], "outs": c["outs"], "answers": c["answers"]}


def shrink_case(c, still_fails, budget=60):
    """Greedy delta debugging on the program: drop invocations, recipes' deps, body lines, faults."""
    import copy
    import time
    t0 = time.time()
    cur = copy.deepcopy(c)

    def attempt(mut):
        nonlocal cur
        if time.time() - t0 > budget:
            return False
        cand = copy.deepcopy(cur)
        try:
            if mut(cand) is False:
                return False
        except Exception:
            return False
        try:
            if still_fails(cand):
                cur = cand
                return True
        except Exception:
            return False
        return False

    changed = True
    while changed and time.time() - t0 < budget:
        changed = False
        for i in range(len(cur["invs"]) - 1, -1, -1):
            if len(cur["invs"]) > 1:
                def m(x, i=i):
                    # a non-last invocation must keep all its arguments
                    del x["invs"][i]
                    for ri, args in x["invs"][:-1]:
                        if len(args) != len(x["prog"]["recipes"][ri]["params"]):
                            return False
                changed |= attempt(m)
        for i in range(len(cur["status"]) - 1, -1, -1):
            changed |= attempt(lambda x, i=i: x["status"].pop(i))
        for ri in range(len(cur["prog"]["recipes"])):
            for kind in ("priors", "subs"):
                for j in range(len(cur["prog"]["recipes"][ri][kind]) - 1, -1, -1):
                    changed |= attempt(lambda x, ri=ri, kind=kind, j=j: x["prog"]["recipes"][ri][kind].pop(j))
            for j in range(len(cur["prog"]["recipes"][ri]["body"]) - 1, -1, -1):
                rc = cur["prog"]["recipes"][ri]
                if rc["script"] and j == 0:
                    continue
                changed |= attempt(lambda x, ri=ri, j=j: x["prog"]["recipes"][ri]["body"].pop(j))
        for j in range(len(cur["prog"]["assigns"]) - 1, -1, -1):
            changed |= attempt(lambda x, j=j: x["prog"]["assigns"].pop(j))
        for flag in ("verbose", "setQuiet", "yes", "noDeps", "quiet", "dryRun"):
            if cur["cfg"].get(flag):
                changed |= attempt(lambda x, flag=flag: x["cfg"].__setitem__(flag, False))
    return cur


# ---------------------------------------------------------------------------------------------
# independent reference of the documented run order (all commands succeed, every prompt confirmed)


def spec_run(prog, cfg, invs, outs):
    """README semantics written directly: priors first (shared memo keyed by recipe+arguments), body,
    subsequents with a fresh memo, command line left to right.  Returns the canonical event list."""
    trace = []
    outmap = list(outs)
    loq = bool(cfg.get("verbose")) and not cfg.get("quiet")

    def bt_out(cmd):
        for k, o in outmap:
            if k in cmd:
                return o
        return ""

    def ev(e, ps):
        if "lit" in e:
            return e["lit"]["s"]
        if "param" in e:
            return ps[e["param"]["i"]]
        if "bt" in e:
            if cfg.get("dryRun"):
                return "`" + e["bt"]["cmd"] + "`"
            trace.append(["bt", e["bt"]["cmd"]])
            return bt_out(e["bt"]["cmd"])
        return ev(e["cat"]["a"], ps) + ev(e["cat"]["b"], ps)

    def echoes(rc, l):
        if cfg.get("dryRun") or loq:
            return True
        if cfg.get("quiet"):
            return False
        if cfg.get("setQuiet") and not rc["noQuiet"]:
            return False
        return l["quiet"] == rc["quiet"]

    def run(ri, given, ran):
        key = (ri, tuple(given))
        if key in ran:
            return
        rc = prog["recipes"][ri]
        if rc["confirm"] and not cfg.get("yes"):
            trace.append(["prompt", ri])
        ps = list(given)
        for i in range(len(given), len(rc["params"])):
            ps.append(ev(rc["params"][i], ps))
        if not cfg.get("noDeps"):
            for d in rc["priors"]:
                run(d["target"], [ev(a, ps) for a in d["args"]], ran)
        if loq:
            trace.append(["body", ri])
        if rc["script"]:
            lines = ["".join(ev(f, ps) for f in l["frags"]) for l in rc["body"]]
            if not cfg.get("quiet") and (cfg.get("dryRun") or rc["quiet"]):
                trace.extend(["echo", x] for x in lines)
            if not cfg.get("dryRun"):
                trace.append(["script", [x for x in lines if x != ""]])
        else:
            for l in rc["body"]:
                cmd = "".join(ev(f, ps) for f in l["frags"])
                if cmd == "":
                    continue
                if echoes(rc, l):
                    trace.append(["echo", cmd])
                if not cfg.get("dryRun"):
                    trace.append(["spawn", cmd])
        if not cfg.get("noDeps"):
            ran2 = set()
            for d in rc["subs"]:
                run(d["target"], [ev(a, ps) for a in d["args"]], ran2)
        ran.add(key)

    for c in prog["assigns"]:
        ev(bt(c), [])
    ran = set()
    for ri, given in invs:
        run(ri, given, ran)
    return trace
