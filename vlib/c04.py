"""C04 - expressions evaluate per the documented semantics, lazily and once."""
import json
import os
import re
import subprocess

from . import common as C
from .exprs import And, Assert, Bt, Call, Concat, Cond, Group, JoinL, JoinR, Or, Str, Var, pr

NAMES = ["a", "b", "c", "d", "e", "f", "g", "h", "HEX", "A_UP", "zz"]
STRS = ["", "x", "ab", "a b", " pad ", "Ab-C", "a/b", "foo.bar", "aaa", "it's", "fooBar", "HTTPServer x2Y", "o{{{{c", "{{", "}}"]


PATHS = ["a/b.c", "/x/y.tar.gz", "./d/", "..", ".rc", "a//b/../c.", "/", "dir/.hidden.txt", "p/q/", "n.o/file", "a/./b/", "up/../../z.z"]


class Gen:
    def __init__(self, rng):
        self.r = rng
        self.nbt = 0
        self.bts = []
        self.user_names = []

    def bt(self):
        k = "[B%d]" % self.nbt
        self.nbt += 1
        self.bts.append(k)
        return Bt(k)

    def expr(self, scope, depth=0):
        r = self.r
        x = r.random()
        if depth > 3 or x < 0.28:
            y = r.random()
            if scope and y < 0.5:
                return Var(r.choice(scope))
            if y < 0.58:
                # a built-in constant, unless the program defines a variable of that name which is not yet in
                # scope (that would be a reference cycle)
                free = [c for c in ["HEX", "HEXUPPER"] if c not in self.user_names or c in scope]
                if free:
                    return Var(r.choice(free))
            if y < 0.7:
                return self.bt()
            return Str(r.choice(STRS))
        e = lambda: self.expr(scope, depth + 1)
        k = r.choice(["concat", "join", "joinr", "and", "or", "cond", "cond", "assert", "group", "u", "u", "uo", "sh", "b", "t", "q", "p", "pj"])
        if k == "concat":
            return Concat(Group(e()), Group(e()))
        if k == "join":
            return JoinL(Group(e()), Group(e()))
        if k == "joinr":
            return JoinR(Group(e()))
        if k == "and":
            return Group(And(Group(e()), Group(e())))
        if k == "or":
            return Group(Or(Group(e()), Group(e())))
        if k == "cond":
            op = r.choice(["eq", "ne", "match", "nomatch"])
            rhs = Str(r.choice(["a", "b", "x", "ab", "zz", "", ""])) if op in ("match", "nomatch") else Group(e())
            return Cond(Group(e()), op, rhs, e(), e())
        if k == "assert":
            a = e()
            # the asserted condition holds by construction in most cases; a failing one aborts the evaluation
            return Assert(Str("k"), r.choice(["eq", "eq", "eq", "ne"]), Str("k"), e()) if r.random() < 0.9 else Assert(Group(a), "ne", Str("never-equal-q"), e())
        if k == "group":
            return Group(e())
        if k == "u":
            return Call(r.choice(["uppercase", "lowercase", "trim", "trim_start", "trim_end", "capitalize", "encode_uri_component", "kebabcase", "snakecase",
                                  "shoutykebabcase", "shoutysnakecase", "titlecase", "uppercamelcase", "lowercamelcase"]), e())
        if k == "q":
            return Call("quote", e())
        if k == "p":
            # path functions over path-like literals (they fail on paths without the part asked for: an error both sides)
            f = r.choice(["clean", "clean", "file_name", "file_stem", "extension", "parent_directory", "without_extension"])
            return Call(f, Str(r.choice(PATHS)) if r.random() < 0.8 else e())
        if k == "pj":
            return Call("join", Str(r.choice(PATHS)), *[Str(r.choice(PATHS + ["x", ""])) for _ in range(r.randint(1, 3))])
        if k == "uo":
            return Call(r.choice(["env"]), Str(r.choice(["EV1", "NOSUCH_VAR"])), e())
        if k == "sh":
            kk = "[B%d]" % self.nbt
            self.nbt += 1
            self.bts.append(kk)
            return Call("shell", Str(kk), e())
        if k == "b":
            f = r.choice(["append", "prepend", "trim_end_match", "trim_start_match", "trim_end_matches", "trim_start_matches", "env_var_or_default"])
            if f == "env_var_or_default":
                return Call(f, Str(r.choice(["EV1", "NOSUCH_VAR"])), e())
            if f in ("append", "prepend"):
                return Call(f, Str(r.choice(["-s", "p_"])), e())
            return Call(f, e(), Str(r.choice(["a", "b", "x", "ab"])))
        return Call("replace", e(), Str(r.choice(["a", "b", "ab", " "])), Str(r.choice(["", "Z", "yy"])))

    def program(self):
        r = self.r
        n = r.randint(1, 7)
        names = r.sample(NAMES, n)
        self.user_names = names
        order = list(names)
        r.shuffle(order)          # dependency order, unrelated to the name (= evaluation) order
        assigns = {}
        for i, nm in enumerate(order):
            assigns[nm] = self.expr(order[:i])
        overrides = {}
        for nm in names:
            if r.random() < 0.2:
                overrides[nm] = r.choice(["ov1", "", "o v"])
        return assigns, overrides


def justfile(assigns, text_order):
    t = 'set shell := ["%s", "-c"]\nset unstable\n' % C.VSH
    for nm in text_order:
        t += "%s := %s\n" % (nm, pr(assigns[nm]))
    t += "\nshow:\n  [V]|" + "".join("{{%s}}|" % nm for nm in sorted(assigns)) + "\n"
    return t


def run_case(arg):
    assigns, overrides, text_order, plan, use_set = arg
    with C.scratch("c04") as d:
        open(os.path.join(d, "justfile"), "w").write(justfile(assigns, text_order))
        logp = os.path.join(d, "vsh.log")
        env = dict(C.BASE_ENV)
        env.update({"HOME": d, "TMPDIR": d, "VSH_LOG": logp, "EV1": "ev-one", "VSH_PLAN": plan})
        argv = []
        for k, v in overrides.items():
            if use_set:
                argv += ["--set", k, v]
        for k, v in overrides.items():
            if not use_set:
                argv.append("%s=%s" % (k, v))
        argv.append("show")
        p = subprocess.run([C.JUST] + argv, cwd=d, env=env, stdin=subprocess.DEVNULL, stdout=subprocess.PIPE, stderr=subprocess.PIPE,
                           timeout=30)
        entries = C.read_vsh_log(logp)
        cmds = [e["argv"][2] for e in entries]
        values = None
        bts = []
        for c in cmds:
            if c.startswith("[V]|"):
                values = c[4:].split("|")[:-1]
            else:
                bts.append(c.split(" ")[0] if c.startswith("[B") else c)
        err = p.stderr.decode("utf-8", "replace")
        kind = None
        if p.returncode != 0:
            kind = "backtick" if "Backtick failed" in err or "shell failed" in err or "Call to function `shell` failed" in err else (
                "assert" if "Assert failed" in err else ("function" if "Call to function" in err else ("internal" if "nternal" in err else "other")))
        return {"rc": p.returncode, "values": values, "backticks": bts, "error": kind, "stderr": err[-300:], "argv": argv}


def run_module_once(_):
    """several recipes of one submodule on one command line: the module's assignments are evaluated once"""
    with C.scratch("c04m") as d:
        open(os.path.join(d, "justfile"), "w").write('set shell := ["%s", "-c"]\nmod foo\nmod bar\n' % C.VSH)
        for m in ("foo", "bar"):
            open(os.path.join(d, m + ".just"), "w").write(
                'set shell := ["%s", "-c"]\nx := `[BM-%s]`\n\nr:\n  [R-%s] {{x}}\n\ns:\n  [S-%s] {{x}}\n' % (C.VSH, m, m, m))
        logp = os.path.join(d, "vsh.log")
        env = dict(C.BASE_ENV)
        env.update({"HOME": d, "TMPDIR": d, "VSH_LOG": logp})
        out = {}
        for name, argv in (("same-module", ["foo::r", "foo::s"]), ("two-modules", ["foo::r", "bar::r", "foo::s"])):
            if os.path.exists(logp):
                os.unlink(logp)
            subprocess.run([C.JUST] + argv, cwd=d, env=env, stdin=subprocess.DEVNULL, stdout=subprocess.PIPE, stderr=subprocess.PIPE)
            out[name] = [e["argv"][2].split(" ")[0] for e in C.read_vsh_log(logp)]
        return out


def run_defaults(_):
    """a parameter default is evaluated only when its argument is omitted (command line and dependency calls)"""
    jf = ('set shell := ["%s", "-c"]\n\nr p=`[BD1]` q=`[BD2]`:\n  [R] {{p}} {{q}}\n\nall: (r \'x\') (r \'x\' \'y\') r\n  [ALL]\n' % C.VSH)
    out = {}
    with C.scratch("c04d") as d:
        open(os.path.join(d, "justfile"), "w").write(jf)
        logp = os.path.join(d, "vsh.log")
        env = dict(C.BASE_ENV)
        env.update({"HOME": d, "TMPDIR": d, "VSH_LOG": logp, "VSH_PLAN": "[BD1]=out:%s;[BD2]=out:%s" % (C.hexs("d1"), C.hexs("d2"))})
        for name, argv in (("none-given", ["r"]), ("first-given", ["r", "a"]), ("both-given", ["r", "a", "b"]), ("dependencies", ["all"])):
            if os.path.exists(logp):
                os.unlink(logp)
            subprocess.run([C.JUST] + argv, cwd=d, env=env, stdin=subprocess.DEVNULL, stdout=subprocess.PIPE, stderr=subprocess.PIPE)
            out[name] = [e["argv"][2] for e in C.read_vsh_log(logp)]
    want = {"none-given": ["[BD1]", "[BD2]", "[R] d1 d2"], "first-given": ["[BD2]", "[R] a d2"], "both-given": ["[R] a b"],
            "dependencies": ["[BD2]", "[R] x d2", "[R] x y", "[BD1]", "[BD2]", "[R] d1 d2", "[ALL]"]}
    return jf, out, want


def run(report):
    tier = report.tier
    just, bt = C.build_just()
    C.proof_stage(report, "C04", thorough=(tier == "thorough"))
    drv = C.Driver()
    n = 1200 if tier == "quick" else 40000
    cases = []
    reqs = []
    for i in range(n):
        rng = C.case_rng(report.seed, i, "c04")
        g = Gen(rng)
        assigns, overrides = g.program()
        text_order = list(assigns)
        rng.shuffle(text_order)
        outs = {k: "o%d" % j for j, k in enumerate(g.bts)}
        failing = {k for k in g.bts if rng.random() < 0.04}
        plan = ";".join("%s=%s" % (k, "exit:3" if k in failing else "out:" + C.hexs(outs[k])) for k in g.bts)
        use_set = rng.random() < 0.3
        cases.append((assigns, overrides, text_order, plan, use_set))
        reqs.append({"op": "evaluate", "assigns": sorted([[k, v] for k, v in assigns.items()], key=lambda x: x[0]),
                     "overrides": [[k, v] for k, v in overrides.items()],
                     "backticks": [[k, None if k in failing else outs[k]] for k in g.bts], "env": [["EV1", "ev-one"]],
                     "ownFirst": True})
    results = C.pmap(run_case, cases)
    model = drv.pbatch(reqs, chunk=500)
    # string literals with escapes, in files with LF and with CRLF line ends, against the README's reading of the escapes
    from . import c11 as K
    import itertools as _it
    C.build_jv()
    jv = C.Jv(timeout=300)
    ALPH = ["a", "\\", "n", "t", "r", "\"", " ", "\n", "\r\n", "\u00e9"]
    lits = ["".join(x) for k in (1, 2, 3, 4) for x in _it.product(ALPH, repeat=k)][: (4000 if tier == "quick" else 12000)]
    srcs = ['x := "%s"\n' % c for c in lits]
    comp = jv.pbatch([{"op": "compile", "src": t} for t in srcs], chunk=2000)
    n_lit = 0
    for t, r in zip(srcs, comp):
        want = K.py_cook(t)
        if want is None or "dump" not in r and "error" not in r:
            continue
        if len(re.findall(r'(?<!\\)(?:\\\\)*"', t)) != 2:
            continue          # the content closes the literal early: not the literal this case is about
        n_lit += 1
        got = {"cooked": r["dump"]["assignments"]["x"]["value"]} if "dump" in r else {"error": r.get("error")}
        if got != want:
            report.failure("c04-string-escapes", "a string literal does not have the value the README defines: got %r want %r" % (got, want),
                           {"op": "compile", "src": t, "observed": got, "readme": want})
    report.coverage["escape_literals"] = n_lit
    # indented strings, in files with LF and with CRLF line ends: the leading line break and the indentation common to
    # the non-blank lines are stripped (README); the line ends of the file are the line ends of the value
    ind_srcs, ind_want = [], []
    irng = C.case_rng(report.seed, 0, "c04-indented")
    for _ in range(400 if tier == "quick" else 4000):
        eol = irng.choice(["\n", "\r\n"])
        delim = irng.choice(["'''", '"""'])
        unit = irng.choice([" ", "  ", "    ", "\t"])
        base = irng.randint(0, 2)
        lines = [(base + irng.randint(0, 2), irng.choice(["foo", "bar baz", "q  z", "\u00e9"])) for _ in range(irng.randint(1, 4))]
        ci = min(k for k, _ in lines)
        closing_indent = unit * irng.choice([0, 0, 1, base])
        last_eol = irng.random() < 0.8
        body = eol + "".join(unit * k + t + (eol if (j < len(lines) - 1 or last_eol) else "") for j, (k, t) in enumerate(lines))
        want = "".join(unit * (k - ci) + t + (eol if (j < len(lines) - 1 or last_eol) else "") for j, (k, t) in enumerate(lines))
        if last_eol:
            body += closing_indent          # the closing delimiter on a line of its own, indented or not
        ind_srcs.append("x := " + delim + body + delim + eol)
        ind_want.append(want)
    icomp = jv.pbatch([{"op": "compile", "src": t} for t in ind_srcs], chunk=2000)
    for t, want, r in zip(ind_srcs, ind_want, icomp):
        got = r["dump"]["assignments"]["x"]["value"] if "dump" in r else {"error": r.get("error")}
        if got != want:
            report.failure("c04-indented-string:%s" % ("crlf" if "\r\n" in t else "lf"),
                           "an indented string does not have the value the README defines: got %r want %r" % (got, want),
                           {"op": "compile", "src": t, "observed": got, "readme": want})
    report.coverage["indented_literals"] = len(ind_srcs)
    # the examples the README gives for the path functions, verbatim
    README_EXAMPLES = [('extension("/foo/bar.txt")', "txt"), ('file_name("/foo/bar.txt")', "bar.txt"), ('file_stem("/foo/bar.txt")', "bar"),
                       ('parent_directory("/foo/bar.txt")', "/foo"), ('without_extension("/foo/bar.txt")', "/foo/bar"),
                       ('clean("foo//bar")', "foo/bar"), ('clean("foo/..")', "."), ('clean("foo/./bar")', "foo/bar"),
                       ('join("foo/bar", "baz")', "foo/bar/baz")]
    ex = jv.pbatch([{"op": "compile", "src": "x := %s\n" % e} for e, _ in README_EXAMPLES])
    with C.scratch("c04x") as d:
        open(os.path.join(d, "justfile"), "w").write("".join("v%d := %s\n" % (i, e) for i, (e, _) in enumerate(README_EXAMPLES)))
        pe = subprocess.run([C.JUST, "--evaluate"], cwd=d, env=dict(C.BASE_ENV), stdin=subprocess.DEVNULL, stdout=subprocess.PIPE, stderr=subprocess.PIPE)
        vals = dict(re.findall(r'^(v\d+) +:= "(.*)"$', pe.stdout.decode("utf-8", "replace"), re.M))
    for i, (e, want) in enumerate(README_EXAMPLES):
        got = vals.get("v%d" % i)
        if got != want:
            report.failure("c04-readme-example:%s" % e.split("(")[0], "%s evaluates to %r, the README says %r" % (e, got, want),
                           {"justfile": "x := %s\n" % e, "argv": ["--evaluate", "x"], "observed": got, "readme": want})
    report.coverage["readme_examples"] = len(README_EXAMPLES)
    # clean(): every path text over {a, b, ., /} up to a length bound, against Just.Path.cleanFn, and against the
    # statement that a cleaned path has nothing left to clean
    kmax = 6 if tier == "quick" else 8
    ptexts = ["".join(x) for k in range(0, kmax + 1) for x in _it.product(["a", ".", "/", "b"], repeat=k)]
    if tier == "quick":
        prng = C.case_rng(report.seed, 0, "c04-clean")
        ptexts = [t for t in ptexts if len(t) <= 5] + prng.sample([t for t in ptexts if len(t) == 6], 1500)

    def eval_clean(chunk):
        with C.scratch("c04p") as d:
            open(os.path.join(d, "justfile"), "w").write("".join("v%d := clean('%s')\nw%d := clean(v%d)\n" % (i, t, i, i) for i, t in enumerate(chunk)))
            pe = subprocess.run([C.JUST, "--evaluate"], cwd=d, env=dict(C.BASE_ENV), stdin=subprocess.DEVNULL, stdout=subprocess.PIPE, stderr=subprocess.PIPE)
            vals = dict(re.findall(r'^([vw]\d+) +:= "(.*)"$', pe.stdout.decode("utf-8", "replace"), re.M))
            return [(vals.get("v%d" % i), vals.get("w%d" % i)) for i in range(len(chunk))]

    chunks = [ptexts[i:i + 400] for i in range(0, len(ptexts), 400)]
    got = [x for ch in C.pmap(eval_clean, chunks) for x in ch]
    pm = drv.pbatch([{"op": "clean", "p": t} for t in ptexts], chunk=5000)
    for t, (v, w), m in zip(ptexts, got, pm):
        if v is None or w is None:
            report.failure("c04-clean-run", "clean(%r) did not evaluate" % t, {"justfile": "x := clean('%s')\n" % t, "argv": ["--evaluate", "x"]})
            break
        if w != v:
            report.failure("c04-clean-not-idempotent", "clean(%r) = %r can be cleaned further to %r" % (t, v, w),
                           {"justfile": "x := clean(clean('%s'))\n" % t, "argv": ["--evaluate", "x"], "observed": [v, w]})
            break
        if m["clean"] != v:
            report.failure("c04-model-clean", "Just.Path.cleanFn and clean() disagree on %r: model %r, implementation %r" % (t, m["clean"], v),
                           {"correspondence": "C04 clean() vs Just.Path.cleanFn", "path": t, "model": m["clean"], "impl": v}, no_input=True)
            break
    report.coverage["clean_paths"] = len(ptexts)
    # the other path functions on the same texts: where the model has a value, the implementation must have the same one
    # (evaluated in bulk); where the model has none, the call must fail (a sample, one process each)
    PFNS = ["file_name", "file_stem", "extension", "parent_directory", "without_extension"]

    def eval_fn_chunk(arg):
        fn, chunk = arg
        with C.scratch("c04q") as d:
            open(os.path.join(d, "justfile"), "w").write("".join("v%d := %s('%s')\n" % (i, fn, t) for i, t in enumerate(chunk)))
            pe = subprocess.run([C.JUST, "--evaluate"], cwd=d, env=dict(C.BASE_ENV), stdin=subprocess.DEVNULL, stdout=subprocess.PIPE, stderr=subprocess.PIPE)
            vals = dict(re.findall(r'^(v\d+) +:= "(.*)"$', pe.stdout.decode("utf-8", "replace"), re.M))
            return [vals.get("v%d" % i) for i in range(len(chunk))], pe.stderr.decode("utf-8", "replace")[-200:]

    n_pf = 0
    for fn in PFNS:
        ok_texts = [t for t, m in zip(ptexts, pm) if m[fn] is not None]
        ok_model = [m[fn] for m in pm if m[fn] is not None]
        fail_texts = [t for t, m in zip(ptexts, pm) if m[fn] is None]
        chunks = [ok_texts[i:i + 400] for i in range(0, len(ok_texts), 400)]
        got = [x for vals_, _ in C.pmap(eval_fn_chunk, [(fn, ch) for ch in chunks]) for x in vals_]
        for t, v, mv in zip(ok_texts, got, ok_model):
            n_pf += 1
            if v != mv:
                report.failure("c04-model-path:%s" % fn, "%s(%r): Just.Path gives %r, the implementation %r" % (fn, t, mv, v),
                               {"correspondence": "C04 %s() vs Just.Path" % fn, "path": t, "model": mv, "impl": v,
                                "justfile": "x := %s('%s')\n" % (fn, t), "argv": ["--evaluate", "x"]}, no_input=True)
                break
        sample = fail_texts if tier == "thorough" and len(fail_texts) < 4000 else C.case_rng(report.seed, 0, "c04-pf-" + fn).sample(fail_texts, min(len(fail_texts), 150))
        for t, (vals_, err) in zip(sample, C.pmap(eval_fn_chunk, [(fn, [t]) for t in sample])):
            n_pf += 1
            if vals_[0] is not None or "Call to function" not in err:
                report.failure("c04-model-path:%s" % fn, "%s(%r): Just.Path has no value, the implementation gives %r" % (fn, t, vals_[0]),
                               {"correspondence": "C04 %s() vs Just.Path" % fn, "path": t, "model": None, "impl": vals_[0]}, no_input=True)
                break
    # join: PathBuf::push left to right
    jtexts = [t for t in ptexts if len(t) <= 3]
    jcases = [(a, b) for a in jtexts for b in jtexts][: (1500 if tier == "quick" else 10000)] + [(a, b, c) for a in jtexts[:10] for b in jtexts[:10] for c in jtexts[:10]]
    jm = drv.pbatch([{"op": "clean", "p": "|".join(c)} for c in jcases], chunk=5000)
    with C.scratch("c04j") as d:
        open(os.path.join(d, "justfile"), "w").write("".join("v%d := join(%s)\n" % (i, ", ".join("'%s'" % x for x in c)) for i, c in enumerate(jcases)))
        pe = subprocess.run([C.JUST, "--evaluate"], cwd=d, env=dict(C.BASE_ENV), stdin=subprocess.DEVNULL, stdout=subprocess.PIPE, stderr=subprocess.PIPE)
        jvals = dict(re.findall(r'^(v\d+) +:= "(.*)"$', pe.stdout.decode("utf-8", "replace"), re.M))
    for i, (c, m) in enumerate(zip(jcases, jm)):
        n_pf += 1
        if jvals.get("v%d" % i) != m["join"]:
            report.failure("c04-model-path:join", "join%r: Just.Path gives %r, the implementation %r" % (c, m["join"], jvals.get("v%d" % i)),
                           {"correspondence": "C04 join() vs Just.Path.joinPaths", "operands": list(c), "model": m["join"], "impl": jvals.get("v%d" % i)}, no_input=True)
            break
    report.coverage["path_function_calls"] = n_pf
    # encode_uri_component: strings over ASCII punctuation, letters, digits, control characters and non-ASCII text, passed
    # through the environment (so that every byte but NUL can occur); against Just.Percent.encode and the README's set
    UA = ["a", "Z", "0", "9", "-", "_", ".", "!", "~", "*", "'", "(", ")", " ", "%", "/", "?", "&", "=", "+", "#", ":", "@", "$", ",", ";",
          "[", "]", "\"", "\\", "<", ">", "{", "}", "|", "^", "`", "\t", "\n", "\x7f", "\u00e9", "\u4e2d", "\U0001F600"]
    utexts = [""] + UA + ["".join(x) for x in _it.product(UA, repeat=2)]
    urng = C.case_rng(report.seed, 0, "c04-uri")
    utexts += ["".join(urng.choice(UA) for _ in range(urng.randint(3, 12))) for _ in range(600 if tier == "quick" else 6000)]

    def eval_uri(chunk):
        with C.scratch("c04u") as d:
            open(os.path.join(d, "justfile"), "w").write("".join("v%d := encode_uri_component(env('U%d'))\n" % (i, i) for i in range(len(chunk))))
            env = dict(C.BASE_ENV)
            env.update({"U%d" % i: t for i, t in enumerate(chunk)})
            pe = subprocess.run([C.JUST, "--evaluate"], cwd=d, env=env, stdin=subprocess.DEVNULL, stdout=subprocess.PIPE, stderr=subprocess.PIPE)
            vals = dict(re.findall(r'^(v\d+) +:= "(.*)"$', pe.stdout.decode("utf-8", "replace"), re.M))
            return [vals.get("v%d" % i) for i in range(len(chunk))]

    uchunks = [utexts[i:i + 300] for i in range(0, len(utexts), 300)]
    ugot = [x for ch in C.pmap(eval_uri, uchunks) for x in ch]
    um = drv.pbatch([{"op": "percent", "s": t} for t in utexts], chunk=5000)
    safe = set("ABCDEFGHIJKLMNOPQRSTUVWXYZabcdefghijklmnopqrstuvwxyz0123456789-_.!~*'()")
    for t, v, m in zip(utexts, ugot, um):
        want = "".join(ch if ch in safe else "".join("%%%02X" % b for b in ch.encode("utf-8")) for ch in t)
        if v != want:
            report.failure("c04-encode-uri-component", "encode_uri_component(%r) = %r, the README's rule gives %r" % (t, v, want),
                           {"justfile": "x := encode_uri_component(env('U'))\n", "env": {"U": t}, "argv": ["--evaluate", "x"], "observed": v, "readme": want})
            break
        if m["encoded"] != v or not m["roundtrip"]:
            report.failure("c04-model-percent", "Just.Percent.encode and encode_uri_component disagree on %r" % t,
                           {"correspondence": "C04 encode_uri_component vs Just.Percent.encode", "text": t, "model": m, "impl": v}, no_input=True)
            break
    report.coverage["encode_uri_component_calls"] = len(utexts)
    # the case conversions (heck::transform behind seven functions) on every text over letters of both cases, a digit and
    # three separators up to a length bound, and random longer ones: against Just.Case and against what the names promise
    # (the letters and digits of the text in their order, in the case and with the separator of the style)
    CA = ["a", "b", "A", "B", "1", "-", "_", " "]
    cmax = 4 if tier == "quick" else 6
    ctexts = ["".join(x) for k in range(0, cmax + 1) for x in _it.product(CA, repeat=k)]
    crng = C.case_rng(report.seed, 0, "c04-case")
    CW = ["foo", "Bar", "BAZ", "x2", "2x", "HTTPServer", "aB", "Ab", "ABc", "a1B", "A1b", "Q", "q", "9", ".", ", ", "!", "-", "_", "__", " ", "/", "é"]
    ctexts += ["".join(crng.choice(CW) for _ in range(crng.randint(1, 6))) for _ in range(1500 if tier == "quick" else 20000)]
    CFNS = ["kebabcase", "snakecase", "shoutykebabcase", "shoutysnakecase", "titlecase", "uppercamelcase", "lowercamelcase"]

    def eval_case(chunk):
        with C.scratch("c04c") as d:
            open(os.path.join(d, "justfile"), "w").write("".join("v%d_%d := %s('%s')\n" % (i, k, fn, t) for i, t in enumerate(chunk) for k, fn in enumerate(CFNS)))
            pe = subprocess.run([C.JUST, "--evaluate"], cwd=d, env=dict(C.BASE_ENV), stdin=subprocess.DEVNULL, stdout=subprocess.PIPE, stderr=subprocess.PIPE)
            vals = dict(re.findall(r'^(v\d+_\d+) +:= "(.*)"$', pe.stdout.decode("utf-8", "replace"), re.M))
            return [[vals.get("v%d_%d" % (i, k)) for k in range(len(CFNS))] for i in range(len(chunk))]

    cchunks = [ctexts[i:i + 300] for i in range(0, len(ctexts), 300)]
    cgot = [x for ch in C.pmap(eval_case, cchunks) for x in ch]
    cm = drv.pbatch([{"op": "case", "s": t} for t in ctexts], chunk=5000)
    SHAPE = {"kebabcase": r"([a-z0-9]+(-[a-z0-9]+)*)?", "snakecase": r"([a-z0-9]+(_[a-z0-9]+)*)?", "shoutykebabcase": r"([A-Z0-9]+(-[A-Z0-9]+)*)?",
             "shoutysnakecase": r"([A-Z0-9]+(_[A-Z0-9]+)*)?", "titlecase": r"([A-Z0-9][a-z0-9]*( [A-Z0-9][a-z0-9]*)*)?",
             "uppercamelcase": r"[A-Za-z0-9]*", "lowercamelcase": r"([a-z0-9][A-Za-z0-9]*)?"}
    n_case = 0
    for t, vs, m in zip(ctexts, cgot, cm):
        stop = False
        ascii_only = all(ord(ch) < 128 for ch in t)
        for fn, v in zip(CFNS, vs):
            n_case += 1
            rp = {"justfile": "x := %s('%s')\n" % (fn, t), "argv": ["--evaluate", "x"], "observed": v}
            if v is None:
                report.failure("c04-case-run:%s" % fn, "%s(%r) did not evaluate" % (fn, t), rp)
                stop = True
                break
            if ascii_only:
                letters = lambda z: [ch.lower() for ch in z if ch.isalnum()]
                if letters(v) != letters(t) or not re.fullmatch(SHAPE[fn], v):
                    report.failure("c04-case-style:%s" % fn, "%s(%r) = %r is not the text's letters and digits written in that style" % (fn, t, v), rp)
                    stop = True
                    break
                if m[fn] != v:
                    report.failure("c04-model-case:%s" % fn, "%s(%r): Just.Case gives %r, the implementation %r" % (fn, t, m[fn], v),
                                   dict(rp, correspondence="C04 %s() vs Just.Case" % fn, model=m[fn], impl=v), no_input=True)
                    stop = True
                    break
        if stop:
            break
    report.coverage["case_conversion_calls"] = n_case
    # absolute_path: the working directory joined with the text, cleaned - against Just.Path.absolutePath; the result is
    # absolute and has nothing left to clean
    atexts = [t for t in ptexts if len(t) <= (5 if tier == "quick" else 7)]

    def eval_abs(chunk):
        with C.scratch("c04a") as d:
            wd = os.path.realpath(d)
            open(os.path.join(d, "justfile"), "w").write("".join("v%d := absolute_path('%s')\nw%d := absolute_path(v%d)\n" % (i, t, i, i) for i, t in enumerate(chunk)))
            pe = subprocess.run([C.JUST, "--evaluate"], cwd=wd, env=dict(C.BASE_ENV), stdin=subprocess.DEVNULL, stdout=subprocess.PIPE, stderr=subprocess.PIPE)
            vals = dict(re.findall(r'^([vw]\d+) +:= "(.*)"$', pe.stdout.decode("utf-8", "replace"), re.M))
            return wd, [(vals.get("v%d" % i), vals.get("w%d" % i)) for i in range(len(chunk))]

    achunks = [atexts[i:i + 400] for i in range(0, len(atexts), 400)]
    ares = C.pmap(eval_abs, achunks)
    areqs = [{"op": "clean", "p": t, "wd": wd} for (wd, _), ch in zip(ares, achunks) for t in ch]
    am = drv.pbatch(areqs, chunk=5000)
    agot = [x for _, vals_ in ares for x in vals_]
    for rq, (v, w), m in zip(areqs, agot, am):
        t = rq["p"]
        rp = {"justfile": "x := absolute_path('%s')\n" % t, "argv": ["--evaluate", "x"], "observed": [v, w], "working_directory": rq["wd"]}
        if v is None or not v.startswith("/") or w != v:
            report.failure("c04-absolute-path", "absolute_path(%r) = %r in %s: not absolute, or absolute_path of it is %r" % (t, v, rq["wd"], w), rp)
            break
        if m["absolute_path"] != v:
            report.failure("c04-model-path:absolute_path", "absolute_path(%r) in %s: Just.Path gives %r, the implementation %r" % (t, rq["wd"], m["absolute_path"], v),
                           dict(rp, correspondence="C04 absolute_path() vs Just.Path.absolutePath", model=m["absolute_path"], impl=v), no_input=True)
            break
    report.coverage["absolute_path_calls"] = len(areqs)
    # the same programs written in a second textual order: values must not depend on it
    cases2 = []
    for (assigns, overrides, text_order, plan, use_set) in cases[: n // 4]:
        cases2.append((assigns, overrides, list(reversed(text_order)), plan, use_set))
    results2 = C.pmap(run_case, cases2)
    stats = {"programs": n, "reordered_programs": len(cases2), "ok": 0, "errors": {}, "with_overrides": 0, "backticks_run": 0,
             "backticks_skipped": 0, "forward_references": 0}
    distinct = set()
    samples = []
    for idx, ((assigns, overrides, text_order, plan, use_set), r, m) in enumerate(zip(cases, results, model)):
        if "fatal" in m:
            raise C.BuildError("model driver: " + m["fatal"])
        text = justfile(assigns, text_order)
        distinct.add(text)
        replay = {"justfile": text, "argv": r["argv"], "plan": plan, "observed": {k: r[k] for k in ("rc", "values", "backticks", "error", "stderr")}}
        if overrides:
            stats["with_overrides"] += 1
        stats["backticks_run"] += len(r["backticks"])
        # direct oracles
        if len(set(r["backticks"])) != len(r["backticks"]):
            report.failure("c04-evaluated-twice", "a backtick ran more than once in one evaluation of the assignments: %s" % r["backticks"], replay)
            continue
        # an overridden variable's expression is not evaluated: none of its backticks may run (unless shared text: keys are unique)
        skipped = False
        for nm in overrides:
            own = re.findall(r"\[B\d+\]", pr(assigns[nm]))
            stats["backticks_skipped"] += len(own)
            if any(b in r["backticks"] for b in own):
                report.failure("c04-override-evaluated", "overridden variable `%s`: its expression was evaluated (backtick ran)" % nm, replay)
                skipped = True
                break
        if skipped:
            continue
        if r["error"] == "internal":
            report.failure("c04-internal-error", "evaluation hit an internal error", replay)
            continue
        if idx < len(results2):
            r2 = results2[idx]
            if (r2["values"], r2["error"], r2["backticks"]) != (r["values"], r["error"], r["backticks"]):
                report.failure("c04-order-dependent", "values / evaluation depend on the order in which the assignments are written",
                               dict(replay, reordered_justfile=justfile(assigns, cases2[idx][2]), reordered_observed={k: r2[k] for k in ("values", "backticks", "error")}))
                continue
        # model (README semantics with own-assignment-first lookup)
        names = sorted(assigns)
        if "error" in m:
            mk = list(m["error"].keys())[0] if isinstance(m["error"], dict) else m["error"]
            if mk == "function" and m["error"]["function"]["fn"] == "shell":
                mk = "backtick"
            stats["errors"][mk] = stats["errors"].get(mk, 0) + 1
            if mk in ("unsupported", "fuel"):
                raise C.BuildError("model cannot evaluate a generated case: " + mk)
            if r["rc"] == 0 or r["error"] != mk or r["backticks"] != m["backticks"]:
                if r["rc"] == 0:
                    report.failure("c04-value:error-expected", "evaluation should fail (%s) but succeeded" % mk, dict(replay, model=m))
                else:
                    report.failure("c04-model", "model and implementation fail differently", dict(replay, correspondence="C04 vs Just.Eval", model=m), no_input=True)
            continue
        stats["ok"] += 1
        mv = [dict(m["values"])[nm] for nm in names]
        if r["rc"] != 0 or r["values"] != mv:
            # where does it differ?
            diff = [nm for nm, a_, b_ in zip(names, r["values"] or [None] * len(names), mv) if a_ != b_]
            user_const = [nm for nm in ("HEX", "HEXUPPER") if nm in assigns]
            if user_const and r["rc"] == 0:
                report.failure("c04-lookup-order:user-defined-constant-name",
                               "a variable named like a built-in constant (%s) is user-defined: references evaluated before it see the constant, later ones the user's value (%s differ)" % (user_const, diff),
                               dict(replay, expected=dict(zip(names, mv))))
            else:
                report.failure("c04-value", "values differ from the documented semantics: %s" % diff, dict(replay, expected=dict(zip(names, mv))))
            continue
        if r["backticks"] != m["backticks"] and [nm for nm in ("HEX", "HEXUPPER") if nm in assigns]:
            report.failure("c04-lookup-order:user-defined-constant-name",
                           "a variable named like a built-in constant is user-defined: a reference evaluated before it sees the constant and does not evaluate it (backtick order %s vs %s)" % (r["backticks"], m["backticks"]),
                           dict(replay, model=m))
            continue
        if r["backticks"] != m["backticks"]:
            report.failure("c04-backtick-log", "backticks ran %s, lazily-once semantics gives %s" % (r["backticks"], m["backticks"]), dict(replay, model=m))
            continue
        if len(samples) < 3 and len(assigns) >= 4 and overrides and r["backticks"]:
            samples.append({"justfile": text, "argv": r["argv"], "values": dict(zip(names, r["values"])), "backticks": r["backticks"]})
    # module assignments are evaluated once per invocation, also across several recipes of the module
    mo = run_module_once(None)
    if mo["same-module"].count("[BM-foo]") != 1:
        report.failure("c04-module-assignments-twice", "`just foo::r foo::s` evaluated module foo's assignment %d times" % mo["same-module"].count("[BM-foo]"),
                       {"argv": ["foo::r", "foo::s"], "observed": mo["same-module"]})
    elif mo["two-modules"].count("[BM-foo]") != 1 or mo["two-modules"].count("[BM-bar]") != 1:
        report.failure("c04-module-assignments-twice", "`just foo::r bar::r foo::s`: module assignments evaluated %s" % mo["two-modules"],
                       {"argv": ["foo::r", "bar::r", "foo::s"], "observed": mo["two-modules"]})
    jf, got, want = run_defaults(None)
    for k in want:
        if got[k] != want[k]:
            report.failure("c04-default-evaluated:%s" % k, "parameter defaults: ran %s, documented %s (a default is evaluated only when its argument is omitted)" % (got[k], want[k]),
                           {"justfile": jf, "case": k, "observed": got[k], "expected": want[k]})
            break
    report.coverage.update({
        "evaluations": n + len(cases2) + 2,
        "distinct_nontrivial": len(distinct),
        "rule": "random assignment sets (1-7 variables, names unrelated to the dependency order so that lazy forward evaluation is exercised, user variables named like constants, every expression form: + / && || if == != =~ !~ assert groups backticks shell() and 34 concrete string/path/case/env functions, depth <= 5), random subsets overridden by NAME=VALUE or --set, 4% failing backticks; values read through a recipe, backtick log through the fake shell; a quarter re-run with the assignments written in reverse order; submodule assignments across several recipes; distinct = distinct justfile texts",
        "samples": samples,
        "traces_validated_against_impl": n + len(cases2),
        "stats": stats,
        "build_s": round(bt, 1),
    })
    report.assumptions += [
        "regex operators are exercised with literal patterns only (modelled as substring search); ASCII letters and whitespace only",
        "about thirty built-in functions (hashes, datetime, uuid, semver, regex replacement, read / path_exists / canonicalize and the other file-system and directory functions, choose, style, which, require) are outside the concrete set and not generated; the case conversions are modelled on ASCII text only",
    ]


def replay(report, path):
    body = json.load(open(path))
    C.build_just()
    rp = body["replay"]
    with C.scratch("c04r") as d:
        open(os.path.join(d, "justfile"), "w").write(rp["justfile"])
        env = dict(C.BASE_ENV, HOME=d, VSH_LOG=os.path.join(d, "log"), EV1="ev-one", VSH_PLAN=rp.get("plan", ""))
        p = subprocess.run([C.JUST] + rp["argv"], cwd=d, env=env, stdout=subprocess.PIPE, stderr=subprocess.PIPE)
        print(json.dumps({"rc": p.returncode, "commands": [e["argv"][2] for e in C.read_vsh_log(os.path.join(d, "log"))],
                          "stderr": p.stderr.decode()[-300:], "expected": rp.get("expected")}, indent=1))
    report.coverage.update({"obligations": 1, "discharged": 1, "checker_cmd": "replay", "trusted_base": []})
