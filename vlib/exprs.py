"""Python side of the shared expression syntax (Just/Model/Expr.lean): constructors and printer."""


def Str(v):
    return {"t": "str", "v": v}


def Var(v):
    return {"t": "var", "v": v}


def Bt(v):
    return {"t": "backtick", "v": v}


def Call(fn, *args):
    return {"t": "call", "fn": fn, "args": list(args)}


def Concat(l, r):
    return {"t": "concat", "l": l, "r": r}


def JoinL(l, r):
    return {"t": "joinL", "l": l, "r": r}


def JoinR(r):
    return {"t": "joinR", "r": r}


def And(l, r):
    return {"t": "and", "l": l, "r": r}


def Or(l, r):
    return {"t": "or", "l": l, "r": r}


def Cond(lhs, op, rhs, thn, els):
    return {"t": "cond", "lhs": lhs, "op": op, "rhs": rhs, "thn": thn, "els": els}


def Assert(lhs, op, rhs, msg):
    return {"t": "assert", "lhs": lhs, "op": op, "rhs": rhs, "msg": msg}


def Group(e):
    return {"t": "group", "e": e}


OPS = {"eq": "==", "ne": "!=", "match": "=~", "nomatch": "!~"}


def pr(e):
    """Print an expression as justfile source. Operands that the grammar would re-associate are the
    generator's responsibility (wrap them in Group)."""
    t = e["t"]
    if t == "str":
        return "'" + e["v"] + "'" if "'" not in e["v"] and "\n" not in e["v"] else '"' + e["v"].replace("\\", "\\\\").replace('"', '\\"').replace("\n", "\\n") + '"'
    if t == "var":
        return e["v"]
    if t == "backtick":
        return "`" + e["v"] + "`"
    if t == "call":
        return e["fn"] + "(" + ", ".join(pr(a) for a in e["args"]) + ")"
    if t == "concat":
        return pr(e["l"]) + " + " + pr(e["r"])
    if t == "joinL":
        return pr(e["l"]) + " / " + pr(e["r"])
    if t == "joinR":
        return "/ " + pr(e["r"])
    if t == "and":
        return pr(e["l"]) + " && " + pr(e["r"])
    if t == "or":
        return pr(e["l"]) + " || " + pr(e["r"])
    if t == "cond":
        return "if " + pr(e["lhs"]) + " " + OPS[e["op"]] + " " + pr(e["rhs"]) + " { " + pr(e["thn"]) + " } else { " + pr(e["els"]) + " }"
    if t == "assert":
        return "assert(" + pr(e["lhs"]) + " " + OPS[e["op"]] + " " + pr(e["rhs"]) + ", " + pr(e["msg"]) + ")"
    if t == "group":
        return "(" + pr(e["e"]) + ")"
    raise ValueError(t)
