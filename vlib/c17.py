"""C17 - listings agree with each other and with what can be run."""
import json
import os
import re
import subprocess

from . import common as C

NAMES = ["build", "test", "clean", "deploy", "_helper", "lint", "fmt", "zz", "aa", "_x"]
OS_ATTRS = [None, None, None, "linux", "unix", "windows", "macos", "openbsd"]


# (documentation displayed, source lines declaring it): comments, [doc(...)] strings whose source text differs from their
# value (escapes, triple quotes), [doc] suppressing a comment, the attribute winning over a comment
DOCS = [(None, [], None, None), (None, [], None, None), (None, [], None, None),
        ("doc of NM", ["# doc of NM"], "doc of NM", None), ("doc of NM", ["# doc of NM"], "doc of NM", None),
        ("# NM twice", ["## NM twice"], "# NM twice", None), ("NM tight", ["#NM tight"], "NM tight", None),
        ("spaced NM", ["#    spaced NM"], "spaced NM", None), ("#! `NM` ## x", ["# #! `NM` ## x"], "#! `NM` ## x", None),
        ("single # NM", ["[doc('single # NM')]"], None, {"v": "single # NM"}),
        ('say "NM"\tnow \\ caf\u00e9', ['[doc("say \\"NM\\"\\tnow \\\\ caf\\u{e9}")]'], None, {"v": 'say "NM"\tnow \\ caf\u00e9'}),
        ("tri NM", ["[doc(\'\'\'tri NM\'\'\')]"], None, {"v": "tri NM"}),
        (None, ["# hidden NM", "[doc]"], "hidden NM", {"v": None}),
        ("attr NM", ["# comment NM", '[doc("attr NM")]'], "comment NM", {"v": "attr NM"})]


def gen(rng):
    """A module tree: root (with an import) and up to two submodules."""

    def module(prefix, depth):
        n = rng.randint(1, 5)
        names = rng.sample(NAMES, n)
        recipes = []
        for k, nm in enumerate(names):
            attrs = []
            osattr = rng.choice(OS_ATTRS)
            if osattr:
                attrs.append(osattr)
            # several system attributes on one recipe: enabled when ANY of them names this platform
            os_more = []
            if osattr and rng.random() < 0.35:
                os_more = rng.sample([x for x in ("linux", "unix", "windows", "macos", "openbsd") if x != osattr], rng.choice([1, 1, 2]))
                attrs += os_more
            priv_attr = rng.random() < 0.2
            if priv_attr:
                attrs.append("private")
            groups = rng.sample(["g1", "g2", "G1", "b t", "B T"], rng.choice([0, 0, 1, 2]))
            doc, doc_src, comment, doc_attr = rng.choice(DOCS)
            if doc is not None:
                doc = doc.replace("NM", nm)
            doc_src = [x.replace("NM", nm) for x in doc_src]
            comment = comment.replace("NM", nm) if comment else None
            doc_attr = {"v": doc_attr["v"].replace("NM", nm) if doc_attr["v"] else None} if doc_attr else None
            params = rng.choice([[], [], ["a"], ["a='d'"], ["*a"], ["+a"], ["a", "b='x'"], ["+a='y'"], ["$a", "*$b"], ["a=\"q\\tz\""]])
            recipes.append({"name": nm, "id": prefix + nm, "attrs": attrs, "groups": groups, "doc": doc, "doc_src": doc_src, "comment": comment, "doc_attr": doc_attr, "params": params,
                            "enabled": osattr is None or any(x in ("linux", "unix") for x in [osattr] + os_more),
                            "private": nm.startswith("_") or priv_attr,
                            "min": sum(1 for x in params if "=" not in x and not x.startswith("*"))})
        aliases = []
        return {"prefix": prefix, "recipes": recipes, "aliases": aliases, "subs": []}

    root = module("", 0)
    # the chooser needs a harmless public recipe it can always pick
    if not any(r["name"] == "noop" for r in root["recipes"]):
        root["recipes"].append({"name": "noop", "id": "noop", "attrs": [], "groups": [], "doc": None, "doc_src": [], "comment": None, "doc_attr": None, "params": [], "enabled": True,
                                "private": False, "min": 0})
    for sm in rng.sample(["foo", "bar"], rng.choice([0, 1, 2])):
        sub = dict(module(sm + "::", 1), name=sm)
        # a module nested two levels deep: every view has to descend
        if rng.random() < 0.4:
            dn = rng.choice(["deep", "aaa"])
            if dn not in {x["name"] for x in sub["recipes"]}:
                sub["subs"].append(dict(module(sm + "::" + dn + "::", 2), name=dn))
        root["subs"].append(sub)
    # aliases in the root: to own recipes and to submodule recipes
    targets = [(r["name"], r) for r in root["recipes"] if r["enabled"]]
    for s in root["subs"]:
        targets += [(s["name"] + "::" + r["name"], r) for r in s["recipes"] if r["enabled"]]
    used = {r["name"] for r in root["recipes"]} | {s["name"] for s in root["subs"]}
    for an in ["al1", "al2", "_al3", "al4"]:
        if targets and rng.random() < 0.6 and an not in used:
            tname, tr = rng.choice(targets)
            root["aliases"].append({"name": an, "target": tname, "target_id": tr["id"], "private_attr": rng.random() < 0.2})
    root["name"] = ""
    return root


def recipe_text(r, offset_note=""):
    t = ""
    for l in r.get("doc_src", ["# " + r["doc"]] if r["doc"] else []):
        t += l + "\n"
    for a in r["attrs"]:
        t += "[%s]\n" % a
    for g in r["groups"]:
        t += "[group('%s')]\n" % g
    t += r["name"] + "".join(" " + p for p in r["params"]) + ":\n  [R:%s]\n\n" % r["id"]
    return t


def files_of(root, rng):
    shell = 'set shell := ["%s", "-c"]\n' % C.VSH
    files = {}
    text = shell
    for s in root["subs"]:
        text += "mod %s\n" % s["name"]
    imported = []
    own = []
    for r in root["recipes"]:
        (imported if rng.random() < 0.25 and r["name"] != "noop" else own).append(r)
    deeper = []
    if imported:
        text += "import 'imp.just'\n"
        # part of them one import further down; the inner import statement above or below the file's own recipes
        deeper = [r for r in imported if rng.random() < 0.5]
        imported = [r for r in imported if r not in deeper]
        body = "".join(recipe_text(r) for r in imported)
        if deeper:
            files["imp2.just"] = "".join(recipe_text(r) for r in deeper)
            body = "import 'imp2.just'\n\n" + body if rng.random() < 0.5 else body + "\nimport 'imp2.just'\n"
        files["imp.just"] = body
    # `--unsorted`: a file's own recipes as written, then those of the files it imports, file by file
    root["_order"] = [r["name"] for r in own + imported + deeper]
    text += "\n"
    for a in root["aliases"]:
        if a["private_attr"]:
            text += "[private]\n"
        text += "alias %s := %s\n" % (a["name"], a["target"])
    text += "\n" + "".join(recipe_text(r) for r in own)
    files["justfile"] = text
    for s in root["subs"]:
        # part of a submodule's recipes may come from a file imported BY the submodule
        moved = [r for r in s["recipes"] if rng.random() < 0.4]
        keep = [r for r in s["recipes"] if r not in moved]
        head = shell
        for dd in s["subs"]:
            head += "mod %s '%s_%s.just'\n" % (dd["name"], s["name"], dd["name"])
            files["%s_%s.just" % (s["name"], dd["name"])] = shell + "\n" + "".join(recipe_text(r) for r in dd["recipes"])
        if moved:
            head += "import '%s_imp.just'\n" % s["name"]
            files["%s_imp.just" % s["name"]] = "".join(recipe_text(r) for r in moved)
        files[s["name"] + ".just"] = head + "\n" + "".join(recipe_text(r) for r in keep)
    return files


def public(m):
    return sorted(r["name"] for r in m["recipes"] if r["enabled"] and not r["private"])


def spec(root):
    """The statement, written directly."""
    summary = public(root)
    for s in sorted(root["subs"], key=lambda x: x["name"]):
        summary += [s["name"] + "::" + n for n in public(s)]
        for dd in sorted(s["subs"], key=lambda x: x["name"]):
            summary += [s["name"] + "::" + dd["name"] + "::" + n for n in public(dd)]
    choose = sorted(r["name"] for r in root["recipes"] if r["enabled"] and not r["private"] and r["min"] == 0)
    for s in root["subs"]:
        choose += [s["name"] + " " + r["name"] for r in s["recipes"] if r["enabled"] and not r["private"] and r["min"] == 0]
        for dd in s["subs"]:
            choose += [s["name"] + " " + dd["name"] + " " + r["name"] for r in dd["recipes"] if r["enabled"] and not r["private"] and r["min"] == 0]
    namepaths = sorted([r["name"] for r in root["recipes"] if r["enabled"]] +
                       [s["name"] + "::" + r["name"] for s in root["subs"] for r in s["recipes"] if r["enabled"]] +
                       [s["name"] + "::" + dd["name"] + "::" + r["name"] for s in root["subs"] for dd in s["subs"] for r in dd["recipes"] if r["enabled"]])
    return {"summary": summary, "list": public(root), "choose": sorted(choose), "json_namepaths": namepaths,
            "json_public": public(root), "json_all": sorted(r["name"] for r in root["recipes"] if r["enabled"])}


def parse_list(out):
    names = []
    modules = []
    for l in out.split("\n")[1:]:
        if not l.startswith("    ") or l.strip().startswith("["):
            continue
        body = l[4:]
        if body.startswith(" "):
            continue
        tok = body.split(" ")[0]
        if body.startswith(tok + " ..."):
            modules.append(tok)
        else:
            names.append(tok)
    return names, modules


def parse_list_full(out):
    """Every entry of a --list: (group or None, name, signature text, doc or None, [aliases])."""
    entries = []
    group = None
    for l in out.split("\n")[1:]:
        if not l.startswith("    ") or l[4:].startswith(" "):
            continue
        body = l[4:]
        if body.startswith("["):
            group = body.strip()[1:-1]
            continue
        sig, sep, rest = body.partition(" # ")
        sig = sig.rstrip()
        if sig.endswith(" ..."):
            continue
        doc, aliases = (rest if sep else None), []
        if doc is not None:
            m = re.search(r"(?:^| )\[alias(?:es)?: ([^\]]*)\]$", doc)
            if m:
                aliases = m.group(1).split(", ")
                doc = doc[:m.start()] or None
        entries.append({"group": group, "name": sig.split(" ")[0], "sig": sig, "doc": doc, "aliases": aliases})
    return entries


def declared_check(mod, entries, jrecipes):
    """Groups, documentation and parameters displayed by --list (and the dump's doc) are the ones declared."""
    for rcp in mod["recipes"]:
        if not rcp["enabled"] or rcp["private"]:
            continue
        mine = [e for e in entries if e["name"] == rcp["name"]]
        want_sig = " ".join([rcp["name"]] + rcp["params"])
        want_groups = sorted(rcp["groups"]) or [None]
        if sorted((e["group"] for e in mine), key=str) != sorted(want_groups, key=str):
            return ("list-groups", rcp["name"], [e["group"] for e in mine], want_groups)
        for e in mine:
            if e["sig"] != want_sig:
                return ("list-parameters", rcp["name"], e["sig"], want_sig)
            if e["doc"] != rcp["doc"]:
                return ("list-doc", rcp["name"], e["doc"], rcp["doc"])
        if jrecipes is not None and rcp["name"] in jrecipes and jrecipes[rcp["name"]]["doc"] != rcp["doc"]:
            return ("json-doc", rcp["name"], jrecipes[rcp["name"]]["doc"], rcp["doc"])
    return None


def run_case(arg):
    root, files = arg
    with C.scratch("c17") as d:
        for f, t in files.items():
            open(os.path.join(d, f), "w").write(t)
        logp = os.path.join(d, "vsh.log")
        env = dict(C.BASE_ENV)
        env.update({"HOME": d, "TMPDIR": d, "VSH_LOG": logp})

        def just(*argv, **kw):
            p = subprocess.run([C.JUST] + list(argv), cwd=d, env=env, stdin=subprocess.DEVNULL, stdout=subprocess.PIPE,
                               stderr=subprocess.PIPE, timeout=30)
            return p.returncode, p.stdout.decode("utf-8", "replace"), p.stderr.decode("utf-8", "replace")

        res = {}
        rc, out, err = just("--summary")
        res["summary"] = out.split() if rc == 0 else ["ERROR " + err[:200]]
        rc, out, err = just("--summary", "--unsorted")
        res["summary_unsorted"] = out.split()
        rc, out, err = just("--list")
        res["list"], res["list_modules"] = parse_list(out)
        res["list_raw"] = out
        res["list_entries"] = parse_list_full(out)
        res["sub_list_entries"] = {}
        for s_ in root["subs"]:
            rc_, out_, err_ = just("--list", s_["name"])
            res["sub_list_entries"][s_["name"]] = parse_list_full(out_)
        rc_, out_, err_ = just("--groups")
        res["groups"] = [l.strip() for l in out_.split("\n")[1:] if l.strip()]
        rc, out, err = just("--list", "--unsorted")
        res["list_unsorted"], _ = parse_list(out)
        rc, out, err = just("--dump", "--dump-format", "json")
        try:
            j = json.loads(out)
            res["json_all"] = sorted(j["recipes"].keys())
            res["json_docs"] = {"": {k: {"doc": v["doc"]} for k, v in j["recipes"].items()}}
            for mk, mv in j["modules"].items():
                res["json_docs"][mk] = {k: {"doc": v["doc"]} for k, v in mv["recipes"].items()}
            res["json_public"] = sorted(k for k, v in j["recipes"].items() if not v["private"] and
                                        not any(a == "private" for a in v["attributes"]))
            res["json_aliases"] = {k: v["target"] for k, v in j["aliases"].items()}
            res["json_modules"] = sorted(j["modules"].keys())
            res["json_namepaths"] = sorted([v["namepath"] for v in j["recipes"].values()] +
                                           [v["namepath"] for mm in j["modules"].values() for v in mm["recipes"].values()] +
                                           [v["namepath"] for mm in j["modules"].values() for m2 in mm["modules"].values() for v in m2["recipes"].values()])
        except Exception as e:
            res["json_error"] = str(e) + err[:200]
        cands = os.path.join(d, "cands.txt")
        rc, out, err = just("--shell", "sh", "--shell-arg", "-cu", "--choose", "--chooser", "cat > %s; echo noop" % cands)
        res["choose_raw"] = open(cands).read().split("\n")[:-1] if os.path.exists(cands) else ["ERROR " + err[:200]]
        res["choose"] = sorted(res["choose_raw"])
        rc, out, err = just("--list", "--list-submodules", "--unsorted")
        res["list_submodules_unsorted_modules"] = re.findall(r"^ +([A-Za-z_][A-Za-z0-9_-]*):$", out, re.M)
        # --show NAME vs just NAME, for every recipe and alias name of the root
        res["targets"] = {}
        for nm in [r["name"] for r in root["recipes"]] + [a["name"] for a in root["aliases"]]:
            rc, out, err = just("--show", nm)
            shown = re.findall(r"\[R:([^\]]*)\]", out)
            crashed = rc not in (0, 1) or "panicked" in err
            if os.path.exists(logp):
                os.unlink(logp)
            rec = next((r for r in root["recipes"] if r["name"] == nm), None)
            if rec is None:
                al_ = next(a for a in root["aliases"] if a["name"] == nm)
                allr = list(root["recipes"]) + [x for s_ in root["subs"] for x in s_["recipes"]]
                tgt = next(x for x in allr if x["id"] == al_["target_id"])
                args = ["w"] * tgt["min"]
            else:
                args = ["w"] * rec["min"]
            rc2, out2, err2 = just(nm, *args)
            entries = C.read_vsh_log(logp)
            ran = re.findall(r"\[R:([^\]]*)\]", entries[0]["argv"][2]) if entries else []
            if not entries and rc2 != 0 and "got" in err2 and "argument" in err2:
                # alias to a recipe with another arity: retry with fewer arguments
                for k in (0, 1, 2):
                    rc2, out2, err2 = just(nm, *(["w"] * k))
                    entries = C.read_vsh_log(logp)
                    if entries:
                        ran = re.findall(r"\[R:([^\]]*)\]", entries[0]["argv"][2])
                        break
            res["targets"][nm] = {"show": shown[0] if shown else None, "show_rc": rc, "crashed": crashed, "show_out": out[:300],
                                  "show_err": err[:300], "run": ran[0] if ran else None, "run_rc": rc2, "run_err": err2[:200]}
        return res


def model_of(root):
    def recs(m):
        out = []
        for k, r in enumerate(sorted([x for x in m["recipes"] if x["enabled"]], key=lambda x: x["name"])):
            out.append({"name": r["name"], "id": r["id"], "isPrivate": r["private"], "minArgs": r["min"], "offset": k})
        return out

    byid = {}
    for r in recs(root):
        byid[r["id"]] = r
    subs = []
    for s in sorted(root["subs"], key=lambda x: x["name"]):
        rs = recs(s)
        for r in rs:
            byid[r["id"]] = r
        deep = []
        for dd in sorted(s["subs"], key=lambda x: x["name"]):
            deep.append({"name": dd["name"], "recipes": recs(dd), "aliases": [], "subs": []})
        subs.append({"name": s["name"], "recipes": rs, "aliases": [], "subs": deep})
    aliases = [{"name": a["name"], "isPrivate": a["name"].startswith("_") or a["private_attr"], "target": byid[a["target_id"]]}
               for a in root["aliases"]]
    return {"name": "", "recipes": recs(root), "aliases": aliases, "subs": subs}


def run(report):
    tier = report.tier
    just, bt = C.build_just()
    C.proof_stage(report, "C17", thorough=(tier == "thorough"))
    drv = C.Driver()
    n = 250 if tier == "quick" else 6000
    cases = []
    for i in range(n):
        rng = C.case_rng(report.seed, i, "c17")
        root = gen(rng)
        cases.append((root, files_of(root, rng)))
    results = C.pmap(run_case, cases)
    reqs = [{"op": "listing", "root": model_of(root), "names": [r["name"] for r in root["recipes"] if r["enabled"]] + [a["name"] for a in root["aliases"]],
             "showByName": False} for root, _ in cases]
    model = drv.pbatch(reqs, chunk=1000)

    def entries_request(root):
        decls = [{"name": x["name"], "params": x["params"], "comment": x.get("comment"), "docAttr": x.get("doc_attr"),
                  "groups": sorted(x["groups"]), "isPrivate": x["private"]} for x in root["recipes"] if x["enabled"]]
        als = [{"name": a["name"], "isPrivate": a["name"].startswith("_") or a["private_attr"], "targetName": a["target"].split("::")[-1],
                "targetHere": "::" not in a["target"]} for a in root["aliases"]]
        return {"op": "entries", "decls": decls, "aliases": als}

    def placed_of(root, files):
        """where each public, enabled recipe of the root module stands: (offsets of the import statements leading to its
        file, offset of its name), in bytes, read off the generated texts"""
        chain = {"justfile": []}
        for outer, inner in (("justfile", "imp.just"), ("imp.just", "imp2.just")):
            if inner in files and outer in chain:
                k = files[outer].find("import '%s'" % inner)
                chain[inner] = chain[outer] + [len(files[outer][:k].encode("utf-8"))]
        out = []
        for x in root["recipes"]:
            if not x["enabled"] or x["private"]:
                continue
            for f in chain:
                m_ = re.search(r"^@?(%s)( |:)" % re.escape(x["name"]), files[f], re.M)
                if m_:
                    out.append({"name": x["name"], "imports": chain[f], "offset": len(files[f][:m_.start(1)].encode("utf-8"))})
                    break
        return out

    emodel = drv.pbatch([dict(entries_request(root), placed=placed_of(root, files)) for root, files in cases], chunk=1000)
    stats = {"programs": n, "with_nested_module": sum(1 for root, _ in cases if any(x["subs"] for x in root["subs"])), "names_compared": 0, "aliases": 0, "aliases_to_submodules": 0, "private_names_run": 0, "commands": 0, "declared_docs_compared": 0}
    distinct = set()
    samples = []
    for (root, files), r, m, em in zip(cases, results, model, emodel):
        if "fatal" in em:
            raise C.BuildError("model driver: " + em["fatal"])
        if "fatal" in m:
            raise C.BuildError("model driver: " + m["fatal"])
        want = spec(root)
        distinct.add(json.dumps(files, sort_keys=True))
        replay = {"files": files, "observed": {k: v for k, v in r.items() if k not in ("list_raw",)}, "expected": want}
        stats["commands"] += 8 + len(root["subs"]) + 2 * len(r["targets"])
        bad = None
        if r["summary"] != want["summary"]:
            bad = ("summary", r["summary"], want["summary"])
        elif sorted(r["summary_unsorted"]) != sorted(want["summary"]):
            bad = ("summary-unsorted-set", r["summary_unsorted"], want["summary"])
        elif sorted(set(r["list"])) != want["list"] or (not any(x["groups"] for x in root["recipes"]) and r["list"] != want["list"]):
            # with groups a recipe is listed once per group, groups first: compare the set; without groups also the order
            bad = ("list", r["list"], want["list"])
        elif sorted(set(r["list_unsorted"])) != want["list"]:
            bad = ("list-unsorted-set", r["list_unsorted"], want["list"])
        elif r.get("json_public") != want["json_public"] or r.get("json_all") != want["json_all"]:
            bad = ("json", [r.get("json_public"), r.get("json_all")], [want["json_public"], want["json_all"]])
        elif r.get("json_namepaths") != want["json_namepaths"]:
            bad = ("json-namepaths", r.get("json_namepaths"), want["json_namepaths"])
        elif r["choose"] != want["choose"]:
            bad = ("choose", r["choose"], want["choose"])
        elif sorted(r["list_modules"]) != sorted(s["name"] for s in root["subs"]):
            bad = ("list-modules", r["list_modules"], [s["name"] for s in root["subs"]])
        if not bad:
            # the views agree on the ORDER too: the chooser gets the summary's order, and the modules come in the same
            # order in the unsorted summary and in the unsorted list
            chosen = set(r["choose_raw"])
            from_summary = [x.replace("::", " ") for x in r["summary"] if x.replace("::", " ") in chosen]
            mods_summary = []
            for x in r["summary_unsorted"]:
                if "::" in x and x.split("::")[0] not in mods_summary:
                    mods_summary.append(x.split("::")[0])
            mods_list = [m_ for m_ in r["list_submodules_unsorted_modules"] if m_ in mods_summary]
            want_order = [n for n in root.get("_order", []) if n in want["summary"]]
            got_order = [x for x in r["summary_unsorted"] if "::" not in x]
            if r["choose_raw"] != from_summary:
                bad = ("choose-order", r["choose_raw"], from_summary)
            elif got_order != want_order:
                bad = ("summary-unsorted-order", got_order, want_order)
            elif em["unsorted"] != got_order:
                report.failure("c17-model-unsorted", "--summary --unsorted lists %r, Just.Listing.unsortedOrder gives %r" % (got_order, em["unsorted"]),
                               dict(replay, correspondence="C17 --unsorted order vs Just.Listing.unsortedOrder", model=em["unsorted"], impl=got_order), no_input=True)
                continue
            elif not any(x["groups"] for x in root["recipes"]) and r["list_unsorted"] != want_order:
                bad = ("list-unsorted-order", r["list_unsorted"], want_order)
            elif mods_list != mods_summary:
                bad = ("module-order-unsorted", mods_summary, mods_list)
        if bad:
            report.failure("c17-view:%s" % bad[0], "%s lists %s, documented %s" % bad, replay)
            continue
        # what is displayed is what was declared: groups, documentation, parameters
        dbad = declared_check(root, r["list_entries"], (r.get("json_docs") or {}).get(""))
        for s_ in root["subs"]:
            dbad = dbad or declared_check(s_, r["sub_list_entries"].get(s_["name"], []), (r.get("json_docs") or {}).get(s_["name"]))
        if not dbad:
            pub_groups = sorted({g for x in root["recipes"] if x["enabled"] and not x["private"] for g in x["groups"]})
            all_groups = {g for x in root["recipes"] for g in x["groups"]}
            if not (set(pub_groups) <= set(r["groups"]) <= all_groups) or len(set(r["groups"])) != len(r["groups"]):
                dbad = ("groups", "--groups", r["groups"], pub_groups)
            elif r["groups"] != em["groups"]:
                report.failure("c17-model-groups", "--groups prints %r, Just.Listing.publicGroups gives %r" % (r["groups"], em["groups"]),
                               dict(replay, correspondence="C17 --groups vs Just.Listing.publicGroups", model=em["groups"], impl=r["groups"]), no_input=True)
                continue
        if dbad:
            report.failure("c17-declared:%s" % dbad[0], "%s of `%s`: displayed %r, declared %r" % dbad, dict(replay, name=dbad[1]))
            continue
        stats["declared_docs_compared"] += sum(1 for x in root["recipes"] if x["doc"] is not None and x["enabled"] and not x["private"])
        # the same entries from the model (Just.Listing.entriesOf): heading, signature, documentation, aliases
        want_entries = sorted(([e["heading"] or "", e["signature"], e["doc"], sorted(e["aliases"])] for es in em["entries"] for e in es), key=json.dumps)
        got_entries = sorted(([e["group"] or "", e["sig"], e["doc"], sorted(e["aliases"])] for e in r["list_entries"]), key=json.dumps)
        if want_entries != got_entries:
            report.failure("c17-model-entries", "the entries of --list differ from Just.Listing.entriesOf (declared-vs-displayed oracle holds)",
                           dict(replay, correspondence="C17 --list entries vs Just.Listing.entriesOf", model=want_entries, impl=got_entries), no_input=True)
            continue
        # --show vs run, private names still runnable
        failed = False
        for nm, t in r["targets"].items():
            rec = next((x for x in root["recipes"] if x["name"] == nm), None)
            al = next((a for a in root["aliases"] if a["name"] == nm), None)
            if rec is not None and not rec["enabled"]:
                continue
            stats["names_compared"] += 1
            want_id = rec["id"] if rec else al["target_id"]
            if al:
                stats["aliases"] += 1
                if "::" in al["target"]:
                    stats["aliases_to_submodules"] += 1
            if rec and rec["private"]:
                stats["private_names_run"] += 1
            sub_alias = bool(al and "::" in al["target"])
            if t["crashed"]:
                report.failure("c17-show-crash:%s" % ("alias-to-submodule" if sub_alias else "other"),
                               "--show %s crashed: %s" % (nm, t["show_err"][:150]), dict(replay, name=nm))
                failed = True
                break
            if t["run"] != want_id:
                report.failure("c17-run-target:%s" % ("alias" if al else "recipe"), "`just %s` ran %s, declared %s" % (nm, t["run"], want_id), dict(replay, name=nm))
                failed = True
                break
            if t["show"] != t["run"]:
                report.failure("c17-show-differs:%s" % ("alias-to-submodule" if sub_alias else ("alias" if al else "recipe")),
                               "--show %s displays %s but `just %s` runs %s" % (nm, t["show"], nm, t["run"]), dict(replay, name=nm))
                failed = True
                break
            if al:
                first = t["show_out"].split("\n")[0]
                if first != "alias %s := %s" % (al["name"], al["target"]):
                    if report.failure("c17-alias-annotation:%s" % ("submodule-path-dropped" if sub_alias else "other"),
                                      "--show prints `%s`, declared `alias %s := %s`" % (first, al["name"], al["target"]), dict(replay, name=nm)):
                        failed = True
                        break
        if failed:
            continue
        # alias annotations in --list: every public alias of a listed recipe of this module is shown with it
        for a in root["aliases"]:
            priv = a["name"].startswith("_") or a["private_attr"]
            tgt_rec = next((x for x in root["recipes"] if x["id"] == a["target_id"]), None)
            line = next((l for l in r["list_raw"].split("\n") if re.search(r"\[alias(es)?: [^\]]*\b%s\b" % re.escape(a["name"]), l)), None)
            attached_to = line.strip().split(" ")[0] if line else None
            if "::" in a["target"]:
                if attached_to is not None:
                    report.failure("c17-list-alias-misattached", "--list attaches alias %s (target %s) to the root recipe `%s`" % (a["name"], a["target"], attached_to), dict(replay, name=a["name"]))
                    failed = True
                    break
                continue
            should = (not priv) and tgt_rec is not None and tgt_rec["enabled"] and not tgt_rec["private"]
            if should != (attached_to == (tgt_rec["name"] if tgt_rec else None)) and (should or attached_to is not None):
                report.failure("c17-list-alias", "--list alias annotation of %s: attached to %s, declared target %s (public=%s)" % (a["name"], attached_to, a["target"], should), dict(replay, name=a["name"]))
                failed = True
                break
        if failed:
            continue
        # model correspondence
        mt = {t["name"]: t for t in m["targets"]}
        ok = m["summary"] == r["summary"] and m["list"] == sorted(set(r["list"])) and sorted(m["choose"]) == sorted(x for x in r["choose"] if " " not in x)
        for nm, t in r["targets"].items():
            if nm in mt and (mt[nm]["run"] != t["run"] or mt[nm]["show"] != t["show"]):
                ok = False
        if not ok:
            report.failure("c17-model", "Lean model and implementation disagree (cross-view oracle holds)",
                           dict(replay, correspondence="C17 vs Just.Listing", model=m), no_input=True)
        if len(samples) < 2 and root["subs"] and root["aliases"]:
            samples.append({"justfile": files["justfile"], "summary": r["summary"], "list": r["list"], "choose": r["choose"]})
    report.coverage.update({
        "evaluations": stats["commands"],
        "distinct_nontrivial": len(distinct),
        "rule": "random justfiles: public / [private] / underscore recipes, OS attributes (enabled and disabled on linux, single and combined), groups, doc comments and [doc] attributes (escapes, triple quotes, suppression), parameters of every kind (exported, escaped defaults), an import that itself imports (source order of --unsorted across the three files), up to two submodules each possibly with a nested submodule, public and private aliases to own and to submodule recipes; --summary, --list (sorted/unsorted), JSON dump, --choose candidates, --groups, the groups / documentation / parameters displayed vs declared (root and `--list MODULE`), and for every name --show vs what `just NAME` runs; distinct = distinct file sets",
        "samples": samples,
        "traces_validated_against_impl": n,
        "stats": stats,
        "build_s": round(bt, 1),
    })
    report.assumptions += [
        "an alias is annotated in --list iff it is public and its target is a listed recipe of the same module (aliases of private recipes being omitted is an observation, not a violation)",
        "the recipe a view refers to is identified by a unique marker in its body",
    ]


def replay(report, path):
    body = json.load(open(path))
    C.build_just()
    rp = body["replay"]
    with C.scratch("c17r") as d:
        for f, t in rp["files"].items():
            open(os.path.join(d, f), "w").write(t)
        if "name" in rp:
            p = subprocess.run([C.JUST, "--show", rp["name"]], cwd=d, env=dict(C.BASE_ENV, HOME=d), stdout=subprocess.PIPE, stderr=subprocess.PIPE)
            print(json.dumps({"rc": p.returncode, "stdout": p.stdout.decode()[:400], "stderr": p.stderr.decode()[:400]}, indent=1))
    report.coverage.update({"obligations": 1, "discharged": 1, "checker_cmd": "replay", "trusted_base": []})
