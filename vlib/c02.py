"""C02 - fail-stop: a failing command halts the run with its exit status."""
import json
import os
import subprocess
import re

from . import common as C
from . import runmodel as R

MARK = re.compile(r"\[T(\d+)\.(\d+)\]")


def plan_status(status, cmd):
    for k, st in status:
        if k in cmd:
            return st
    return "ok"


def st_exit(st):
    if "code" in st:
        return st["code"]["n"]
    return 128 + st["signal"]["n"]


def expected(prog, cfg, trace_ok, status, answers):
    """The statement of C02 applied to the all-succeed trace: cut right after the first declined prompt or
    the first failing command that is not on a `-` line; exit with its status."""
    pc = 0
    for i, e in enumerate(trace_ok):
        if e[0] == "prompt":
            ans = answers[pc] if pc < len(answers) else False
            pc += 1
            if not ans:
                return trace_ok[:i + 1], 1
        elif e[0] == "bt":
            st = plan_status(status, e[1])
            if st != "ok":
                return trace_ok[:i + 1], st_exit(st)
        elif e[0] == "spawn":
            st = plan_status(status, e[1])
            if st != "ok":
                m = MARK.match(e[1])
                inf = False
                if m:
                    inf = prog["recipes"][int(m.group(1))]["body"][int(m.group(2))]["infallible"]
                if not inf:
                    return trace_ok[:i + 1], st_exit(st)
        elif e[0] == "script":
            st = plan_status(status, "\n".join(e[1]))
            if st != "ok":
                return trace_ok[:i + 1], st_exit(st)
    return trace_ok, 0


def exec_events(trace):
    return [(i, e) for i, e in enumerate(trace) if e[0] in ("bt", "spawn", "script")]


def key_of_event(e):
    if e[0] == "script":
        return e[1][1] if len(e[1]) > 1 else e[1][0]
    return e[1]


FAIL_STATUSES = [{"code": {"n": 1}}, {"code": {"n": 2}}, {"code": {"n": 100}}, {"code": {"n": 200}}, {"code": {"n": 255}},
                 {"signal": {"n": 9}}, {"signal": {"n": 15}}, {"signal": {"n": 10}}]


def run(report):
    tier = report.tier
    just, bt = C.build_just()
    C.proof_stage(report, "C02", thorough=(tier == "thorough"))
    drv = C.Driver()
    nprog = 400 if tier == "quick" else 6000
    stats = {"programs": 0, "single_fault_runs": 0, "multi_fault_runs": 0, "status_sweep": 0, "stopped_runs": 0,
             "infallible_failures_ignored": 0, "declined_prompts": 0, "fault_kinds": {"bt": 0, "spawn": 0, "script": 0}}
    samples = []
    distinct = set()

    # ---- 1. every status 1..255 and terminating signals on one placement (exhaustive)
    sweep = []
    for n in list(range(1, 256)):
        sweep.append({"code": {"n": n}})
    for s in (1, 2, 3, 6, 9, 10, 12, 13, 14, 15):
        sweep.append({"signal": {"n": s}})
    base_prog = {"assigns": [], "recipes": [
        {"params": [], "priors": [{"target": 1, "args": []}], "subs": [{"target": 2, "args": []}],
         "body": [{"quiet": False, "infallible": False, "frags": [R.lit("[T0.0]")]},
                  {"quiet": False, "infallible": False, "frags": [R.lit("[T0.1]")]}],
         "script": False, "confirm": False, "quiet": False, "noQuiet": False},
        {"params": [], "priors": [], "subs": [], "body": [{"quiet": False, "infallible": False, "frags": [R.lit("[T1.0]")]}],
         "script": False, "confirm": False, "quiet": False, "noQuiet": False},
        {"params": [], "priors": [], "subs": [], "body": [{"quiet": False, "infallible": False, "frags": [R.lit("[T2.0]")]}],
         "script": False, "confirm": False, "quiet": False, "noQuiet": False}]}
    cases = []
    for st in sweep:
        for inf in (False, True):
            prog = json.loads(json.dumps(base_prog))
            prog["recipes"][0]["body"][0]["infallible"] = inf
            cases.append({"prog": prog, "cfg": R.full_cfg(), "invs": [[0, []], [2, []]], "status": [("[T0.0]", st)],
                          "outs": [], "answers": [], "kind": "sweep"})
    # ---- 2. random graphs x every single fault placement + random multi-fault plans + confirmation answers
    progs = []
    for i in range(nprog):
        rng = C.case_rng(report.seed, i, "c02")
        g = R.Gen(rng, max_recipes=rng.choice([2, 3, 4, 5]), faults=True, confirm=True, scripts=True, bts=True, empty_cmds=False)
        prog = g.program()
        invs = g.invocations(prog)
        outs = [(k, "o%d" % j) for j, k in enumerate(g.bt_keys)]
        progs.append({"prog": prog, "cfg": R.full_cfg(yes=rng.random() < 0.15), "invs": invs, "outs": outs, "rng": rng})
    ok_cases = [dict(p, status=[], answers=[True] * 200) for p in progs]
    ok_results = R.run_cases([{k: v for k, v in c.items() if k != "rng"} for c in ok_cases], drv)
    for p, (m, r) in zip(progs, ok_results):
        p["trace_ok"] = r["events"]
        p["exit_ok"] = r["exit"]
        # absolute reference for the all-succeed, all-confirmed run: the prompt comes before the recipe's
        # parameters, dependencies and body (so that declining it runs none of them)
        ref = R.spec_run(p["prog"], p["cfg"], p["invs"], p["outs"])
        if r["events"] != ref or r["exit"] != 0:
            c0 = {k: p[k] for k in ("prog", "cfg", "invs", "outs")}
            c0.update(status=[], answers=[True] * 200)
            report.failure("c02-confirm-order", "confirmation prompt / commands are not in the documented order (a declined recipe would have run something)",
                           {"case": R.describe_case(c0), "expected": {"events": ref, "exit": 0},
                            "observed": {"events": r["events"], "exit": r["exit"]}})
        rng = p["rng"]
        ex = exec_events(r["events"])
        base = {k: p[k] for k in ("prog", "cfg", "invs", "outs")}
        picks = ex if tier == "thorough" or len(ex) <= 10 else rng.sample(ex, 10)
        for (i, e) in picks:
            st = rng.choice(FAIL_STATUSES)
            cases.append(dict(base, status=[(key_of_event(e), st)], answers=[True] * 200, kind="single", trace_ok=r["events"]))
        for _ in range(3):
            status = []
            for (i, e) in ex:
                if rng.random() < 0.15:
                    status.append((key_of_event(e), rng.choice(FAIL_STATUSES)))
            answers = [rng.random() < 0.9 for _ in range(200)]
            cases.append(dict(base, status=status, answers=answers, kind="multi", trace_ok=r["events"]))
    run_cases = [{k: v for k, v in c.items() if k not in ("kind", "trace_ok")} for c in cases]
    results = R.run_cases(run_cases, drv)
    # all-succeed traces for the sweep cases
    sweep_ok = R.run_cases([dict(run_cases[0], status=[]), dict(run_cases[1], status=[])], drv)
    for c, rc, (m, r) in zip(cases, run_cases, results):
        if c["kind"] == "sweep":
            stats["status_sweep"] += 1
            trace_ok = sweep_ok[1 if c["prog"]["recipes"][0]["body"][0]["infallible"] else 0][1]["events"]
        else:
            stats["single_fault_runs" if c["kind"] == "single" else "multi_fault_runs"] += 1
            trace_ok = c["trace_ok"]
        want_trace, want_exit = expected(c["prog"], c["cfg"], trace_ok, c["status"], c["answers"])
        distinct.add(json.dumps([r["events"], r["exit"]]))
        if want_exit != 0:
            stats["stopped_runs"] += 1
            last = want_trace[-1]
            if last[0] == "prompt":
                stats["declined_prompts"] += 1
            else:
                stats["fault_kinds"][last[0]] += 1
        elif c["status"]:
            stats["infallible_failures_ignored"] += 1
        if r["events"] != want_trace or r["exit"] != want_exit:
            def still(x):
                xr = {k: v for k, v in x.items() if k not in ("kind", "trace_ok")}
                pair = R.run_cases([dict(xr, status=[], answers=[True] * 200), xr], drv)
                wt, we = expected(x["prog"], x["cfg"], pair[0][1]["events"], x["status"], x["answers"])
                return pair[1][1]["events"] != wt or pair[1][1]["exit"] != we
            small = R.shrink_case(rc, still, budget=40)
            pair = R.run_cases([dict(small, status=[], answers=[True] * 200), small], drv)
            wt, we = expected(small["prog"], small["cfg"], pair[0][1]["events"], small["status"], small["answers"])
            report.failure("c02-failstop", "run does not stop at the first failing command / declined prompt with its status (or a `-` line stopped it)",
                           {"case": R.describe_case(small), "all_succeed_trace": pair[0][1]["events"],
                            "expected": {"events": wt, "exit": we},
                            "observed": {"events": pair[1][1]["events"], "exit": pair[1][1]["exit"], "stderr": pair[1][1]["stderr"][-1500:]}})
            continue
        if m["events"] != r["events"] or m["exit"] != r["exit"]:
            report.failure("c02-model", "Lean model and implementation disagree although the implementation is fail-stop",
                           {"correspondence": "C02 fault enumeration vs Just.Run.runMain", "case": R.describe_case(rc),
                            "model": {"events": m["events"], "exit": m["exit"]},
                            "observed": {"events": r["events"], "exit": r["exit"]}}, no_input=True)
        if len(samples) < 4 and c["kind"] == "multi" and want_exit != 0:
            samples.append({"justfile": R.print_prog(c["prog"], c["cfg"]), "argv": R.cmdline(c["cfg"], c["invs"]),
                            "plan": c["status"], "answers": c["answers"][:4], "events": r["events"], "exit": r["exit"]})
    stats["programs"] = nprog
    # which typed answers confirm: a [confirm] recipe between two others, one answer text per run, against
    # Just.Run.confirmAccepts and the rule `y` / `yes` in any case with surrounding blanks
    TEXTS = R.ACCEPT_TEXTS + R.DECLINE_TEXTS + ["Y E S", "yes\r", "  YES  ", "y.", "ok", "sure", "0", "-y", "yy", "es", "\u0443", "y\u00e9s", "NO", "No", " n "]
    cjust = 'set shell := ["%s", "-c"]\nfirst:\n  [first]\n[confirm]\nmid: first && after\n  [mid]\nafter:\n  [after]\nlast:\n  [last]\n' % C.VSH

    def run_confirm(text):
        with C.scratch("c02c") as d:
            open(os.path.join(d, "justfile"), "w").write(cjust)
            logp = os.path.join(d, "vsh.log")
            env = dict(C.BASE_ENV)
            env.update({"HOME": d, "TMPDIR": d, "VSH_LOG": logp})
            p = subprocess.run([C.JUST, "mid", "last"], cwd=d, env=env, input=(text + "\n").encode(), stdout=subprocess.PIPE, stderr=subprocess.PIPE)
            return p.returncode, [e["argv"][2] for e in C.read_vsh_log(logp)]

    cres = C.pmap(run_confirm, TEXTS)
    cmod = drv.pbatch([{"op": "confirm", "line": t + "\n"} for t in TEXTS])
    stats["confirm_answer_texts"] = len(TEXTS)
    for t, (rc, ran), m in zip(TEXTS, cres, cmod):
        yes = t.strip().lower() in ("y", "yes")
        want = (0, ["[first]", "[mid]", "[after]", "[last]"]) if yes else (1, [])
        if (rc, ran) != want:
            report.failure("c02-confirm-answer", "answer %r to a [confirm] prompt: exit %d, ran %s; only `y` and `yes` confirm, a declined recipe runs nothing and exits 1" % (t, rc, ran),
                           {"justfile": cjust, "argv": ["mid", "last"], "stdin": t + "\n", "observed": {"exit": rc, "ran": ran}, "expected": {"exit": want[0], "ran": want[1]}})
            break
        if m["accepts"] != yes:
            report.failure("c02-model-confirm", "Just.Run.confirmAccepts disagrees on the answer %r" % t,
                           {"correspondence": "C02 confirmation answer vs Just.Run.confirmAccepts", "answer": t, "model": m}, no_input=True)
            break
    report.coverage.update({
        "evaluations": len(cases) + len(ok_cases),
        "distinct_nontrivial": len(distinct),
        "rule": "fault enumeration: every status 1..255 and 10 signals on a fixed placement with/without `-` (exhaustive); for random graphs every single failing command (line, script, backtick in assignment/default/interpolation/dependency argument) with a status from a fixed set, plus random multi-fault plans and confirmation answer sequences (typed as `y`, `yes`, `Yes  `, … / `n`, ``, `ye`, `yes please`, …), and 40 answer texts one by one; distinct = distinct (trace, exit) observed",
        "samples": samples,
        "traces_validated_against_impl": len(cases) + len(ok_cases),
        "stats": stats,
        "build_s": round(bt, 1),
    })
    report.assumptions += [
        "`killed by signal N` is produced by the fake shell killing itself with N",
        "the oracle compares the faulty run with the all-succeed run of the same program through the implementation itself",
        "core dumps / stopped children are not modelled",
    ]


def replay(report, path):
    body = json.load(open(path))
    C.build_just()
    c = body["replay"]["case"]
    with C.scratch("replay") as d:
        r = R.run_impl(d, c["justfile"], c["argv"], [tuple(x) for x in c["status"]], [tuple(x) for x in c["outs"]], c["answers"])
    print(json.dumps({"events": r["events"], "exit": r["exit"], "expected": body["replay"].get("expected")}, indent=1))
    report.coverage.update({"obligations": 1, "discharged": 1, "checker_cmd": "replay", "trusted_base": []})
    exp = body["replay"].get("expected")
    if exp and (r["events"] != exp["events"] or r["exit"] != exp["exit"]):
        report.failure(body["signature"], "replay still fails", body["replay"])
