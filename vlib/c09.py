"""C09 - every command runs in the documented working directory."""
import itertools
import json
import os
import subprocess

from . import common as C

# deep: a module declared inside the submodule, in a directory of its own (proj/mods/deep/mod.just)
FILES = ["root", "imp", "sub", "subimp", "nested", "deep"]
SETTINGS = [None, "rel", "abs"]
# jfrel / jfwdrel: the same with RELATIVE paths written with `./`, `dir/./` and a `name/..` detour (cleaned lexically)
FLAGS = ["none", "jf", "jfwd", "jfrel", "jfwdrel"]
INVS = ["proj", "proj/x/y", "proj/mods", "elsewhere"]
ATTRS = [None, "rel", "abs", "relsym"]
# relsym: a relative attribute that goes through a symbolic link and back up (`lnk/../elsewhere`): the directory is the one
# the operating system reaches that way (the link's target's parent), not the lexically shortened path
# (invocation directory, what is written in front of the recipe name); `@` stands for the scratch directory
PATHWORDS = [("proj", "x/y/"), ("proj", "./x/"), ("proj/x/y", "../"), ("proj/x", "y/"), ("elsewhere", "../proj/x/y/"), ("elsewhere", "@/proj/x/"),
             ("proj/mods", "../x/y/")]


def space(tier, seed):
    allc = []
    for f, sr, ss, fl, inv, at, nocd, script, reach in itertools.product(
            FILES, SETTINGS, SETTINGS, FLAGS, INVS, ATTRS, [False, True], [False, True, "attr"], ["direct", "dep", "alias", "alias-in-module"]):
        if reach == "alias-in-module" and f not in ("sub", "subimp", "deep"):
            continue  # an alias declared inside the submodule: of its own recipes and of its nested module's
        if inv == "elsewhere" and fl == "none":
            continue  # no justfile would be found
        if nocd and at is not None:
            continue  # `[no-cd]` with `[working-directory]` is rejected at compile time
        allc.append({"file": f, "set_root": sr, "set_sub": ss, "flags": fl, "inv": inv, "attr": at, "nocd": nocd,
                     "script": script, "reach": reach})
    # the recipe named with a directory in front (`just DIR/recipe`): DIR has no justfile of its own, the search climbs from
    # it to the project; nothing but the place the search starts from may depend on DIR
    pathc = []
    for f, sr, ss, (inv, word), at, nocd, script, reach in itertools.product(
            FILES, SETTINGS, SETTINGS, PATHWORDS, ATTRS, [False, True], [False, True, "attr"], ["direct", "dep"]):
        if nocd and at is not None:
            continue
        pathc.append({"file": f, "set_root": sr, "set_sub": ss, "flags": "none", "inv": inv, "attr": at, "nocd": nocd,
                      "script": script, "reach": reach, "pathword": word})
    total = len(allc) + len(pathc)
    if tier == "quick":
        rng = C.case_rng(seed, 0, "c09")
        rng.shuffle(allc)
        rng.shuffle(pathc)
        allc = allc[:1200]
        pathc = pathc[:240]
    else:
        # the product without the symbolic-link attribute and without DIR/recipe is run completely; of those two additions a sample
        rng = C.case_rng(seed, 0, "c09-thorough")
        sym = [c for c in allc if c["attr"] == "relsym"]
        rng.shuffle(sym)
        rng.shuffle(pathc)
        allc = [c for c in allc if c["attr"] != "relsym"] + sym[:5000]
        pathc = pathc[:5000]
    return allc + pathc, total


def layout(d, c):
    """Write the files for configuration c under d; returns dict with paths and invocation."""
    proj = os.path.join(d, "proj")
    dirs = ["proj/mods/deep/ad", "proj/imp", "proj/mods/inner", "proj/x/y", "proj/wd/ad", "proj/ad", "proj/mods/wd/ad", "proj/mods/ad", "proj/imp/ad",
            "abs1/ad", "abs2", "other/ad", "other/wd/ad", "elsewhere"]
    for x in dirs:
        os.makedirs(os.path.join(d, x), exist_ok=True)
    if c["attr"] == "relsym":
        for b in ["proj", "proj/wd", "proj/mods", "proj/mods/wd", "proj/imp", "proj/mods/deep", "other", "other/wd", "abs1"]:
            os.symlink(os.path.join(d, "abs2"), os.path.join(d, b, "lnk"))
            os.makedirs(os.path.join(d, b, "elsewhere"), exist_ok=True)
    shell = 'set shell := ["%s", "-c"]\n' % C.VSH

    def setting_text(s):
        if s == "rel":
            return "set working-directory := 'wd'\n"
        if s == "abs":
            return "set working-directory := '%s'\n" % os.path.join(d, "abs1")
        return ""

    attrs = ""
    if c["nocd"]:
        attrs += "[no-cd]\n"
    if c["attr"] == "rel":
        attrs += "[working-directory('ad')]\n"
    elif c["attr"] == "relsym":
        attrs += "[working-directory('lnk/../elsewhere')]\n"
    elif c["attr"] == "abs":
        attrs += "[working-directory('%s')]\n" % os.path.join(d, "abs2")
    line = "[T] {{invocation_directory()}}|{{justfile_directory()}}|{{source_directory()}}|{{`[Bint]`}}"
    if c["script"] == "attr":
        # a `[script(...)]` recipe: the interpreter is started by another code path than a shebang line's
        target = attrs + "[script('%s')]\nt:\n  %s\n\ntop: t\n" % (C.VSH, line)
    elif c["script"]:
        target = attrs + "t:\n  #!%s\n  %s\n\ntop: t\n" % (C.VSH, line)
    else:
        target = attrs + "t:\n  %s\n\ntop: t\n" % line
    dummy = "dummy_%s:\n  [D]\n"
    unstable = "set unstable\n" if c["script"] == "attr" else ""
    texts = {
        "root": shell + unstable + setting_text(c["set_root"]) + "import 'imp/i.just'\nmod sub 'mods/sub.just'\nbt := `[Bmod-root]`\n\n",
        "imp": "mod nested\n\n",
        "sub": shell + unstable + setting_text(c["set_sub"]) + "import 'inner/ii.just'\nmod deep\nbtsub := `[Bmod-sub]`\n\n",
        "deep": shell + unstable + "\n",
        "subimp": "\n",
        "nested": shell + unstable + "\n",
    }
    for f in FILES:
        texts[f] += target if f == c["file"] else dummy % f
    paths = {"root": "proj/justfile", "imp": "proj/imp/i.just", "sub": "proj/mods/sub.just", "subimp": "proj/mods/inner/ii.just",
             "nested": "proj/imp/nested.just", "deep": "proj/mods/deep/mod.just"}
    for f, rel in paths.items():
        open(os.path.join(d, rel), "w").write(texts[f])
    name = "top" if c["reach"] == "dep" else "t"
    prefix = {"root": "", "imp": "", "sub": "sub::", "subimp": "sub::", "nested": "nested::", "deep": "sub::deep::"}[c["file"]]
    if c["reach"] == "alias-in-module":
        inner = "deep::t" if c["file"] == "deep" else "t"
        open(os.path.join(d, paths["sub"]), "a").write("\nalias ald := %s\n" % inner)
        texts["sub"] += "\nalias ald := %s\n" % inner
        prefix, name = "sub::", "ald"
    if c["reach"] == "alias":
        # an alias declared in the root justfile, possibly of a recipe in a submodule: it runs where the recipe runs
        open(os.path.join(d, paths["root"]), "a").write("\nalias al := %st\n" % prefix)
        texts["root"] += "\nalias al := %st\n" % prefix
        prefix, name = "", "al"
    argv = []
    if c["flags"] in ("jfrel", "jfwdrel"):
        cwd_ = os.path.join(d, c["inv"])

        def spell(target, k):
            rel = os.path.relpath(target, cwd_)
            return ["./" + rel, os.path.join(os.path.dirname(rel) or ".", ".", os.path.basename(rel)), "detour/../" + rel][k % 3]

        k = (len(c["inv"]) + len(c["file"]) + (3 if c["nocd"] else 0) + (1 if c["script"] else 0)) % 3
        argv += ["--justfile", spell(os.path.join(proj, "justfile"), k)]
        if c["flags"] == "jfwdrel":
            argv += ["--working-directory", spell(os.path.join(d, "other"), k + 1)]
    if c["flags"] in ("jf", "jfwd"):
        argv += ["--justfile", os.path.join(proj, "justfile")]
    if c["flags"] == "jfwd":
        argv += ["--working-directory", os.path.join(d, "other")]
    argv.append(c.get("pathword", "").replace("@", d) + prefix + name)
    return {"argv": argv, "cwd": os.path.join(d, c["inv"]), "texts": texts, "paths": paths}


def comps(p):
    return [x for x in p.split("/") if x]


def model_ctx(d, c):
    proj = os.path.join(d, "proj")
    workdir = os.path.join(d, "other") if c["flags"] in ("jfwd", "jfwdrel") else proj
    chain = {"root": [], "imp": [{"import": {"fileDir": comps(proj + "/imp")}}],
             "sub": [{"module": {"fileDir": comps(proj + "/mods")}}],
             "subimp": [{"module": {"fileDir": comps(proj + "/mods")}}, {"import": {"fileDir": comps(proj + "/mods/inner")}}],
             "nested": [{"import": {"fileDir": comps(proj + "/imp")}}, {"module": {"fileDir": comps(proj + "/imp")}}],
             "deep": [{"module": {"fileDir": comps(proj + "/mods")}}, {"module": {"fileDir": comps(proj + "/mods/deep")}}]}[c["file"]]
    which = {"root": "set_root", "imp": "set_root", "sub": "set_sub", "subimp": "set_sub", "nested": None, "deep": None}[c["file"]]

    def rel(s, name, absdir):
        if s == "rel":
            return {"rel": {"p": [name]}}
        if s == "abs":
            return {"abs": {"p": comps(os.path.join(d, absdir))}}
        return None

    search = {"justfileDir": comps(proj), "workDir": comps(workdir)}
    ctx = {"invocationDir": comps(os.path.join(d, c["inv"])), "search": search, "chain": chain,
           "setting": rel(c[which], "wd", "abs1") if which else None}
    root_ctx = {"invocationDir": ctx["invocationDir"], "search": search, "chain": [], "setting": rel(c["set_root"], "wd", "abs1")}
    attrs = {"noCd": c["nocd"], "attr": rel(c["attr"] if c["attr"] != "relsym" else None, "ad", "abs2")}
    return ctx, attrs, root_ctx


def spec(d, c):
    """The statement written directly."""
    proj = os.path.join(d, "proj")
    inv = os.path.join(d, c["inv"])
    moddir = {"root": None, "imp": None, "sub": proj + "/mods", "subimp": proj + "/mods", "nested": proj + "/imp", "deep": proj + "/mods/deep"}[c["file"]]
    base = moddir if moddir else (os.path.join(d, "other") if c["flags"] in ("jfwd", "jfwdrel") else proj)
    setting = {"root": c["set_root"], "imp": c["set_root"], "sub": c["set_sub"], "subimp": c["set_sub"], "nested": None, "deep": None}[c["file"]]
    if setting == "rel":
        base = base + "/wd"
    elif setting == "abs":
        base = os.path.join(d, "abs1")
    bt = base
    if c["nocd"]:
        cwd = inv
    elif c["attr"] == "rel":
        cwd = base + "/ad"
    elif c["attr"] == "relsym":
        cwd = os.path.join(d, "elsewhere")       # <base>/lnk -> <d>/abs2, and abs2/.. is <d>
    elif c["attr"] == "abs":
        cwd = os.path.join(d, "abs2")
    else:
        cwd = base
    srcdir = {"root": proj, "imp": proj + "/imp", "sub": proj + "/mods", "subimp": proj + "/mods/inner", "nested": proj + "/imp",
              "deep": proj + "/mods/deep"}[c["file"]]
    rootbase = os.path.join(d, "other") if c["flags"] in ("jfwd", "jfwdrel") else proj
    if c["set_root"] == "rel":
        rootbase += "/wd"
    elif c["set_root"] == "abs":
        rootbase = os.path.join(d, "abs1")
    return {"recipe": cwd, "backtick": bt, "invocation_directory": inv, "justfile_directory": proj, "source_directory": srcdir,
            "rootBacktick": rootbase}


def run_cfg(c):
    with C.scratch("c09") as d:
        d = os.path.realpath(d)
        lay = layout(d, c)
        logp = os.path.join(d, "vsh.log")
        env = dict(C.BASE_ENV)
        env.update({"HOME": d, "TMPDIR": d, "VSH_LOG": logp, "VSH_PLAN": "[Bint]=out:" + C.hexs("i")})
        p = subprocess.run([C.JUST] + lay["argv"], cwd=lay["cwd"], env=env, stdin=subprocess.DEVNULL, stdout=subprocess.PIPE,
                           stderr=subprocess.PIPE)
        obs = {}
        for e in C.read_vsh_log(logp):
            text = e["script"].split("\n")[-2] if e["script"] is not None and len(e["script"].split("\n")) > 1 else (e["argv"][2] if len(e["argv"]) > 2 else "")
            if e["script"] is not None:
                text = [l for l in e["script"].split("\n") if l.startswith("[T]")][0]
            cwd = os.path.realpath(e["cwd"])
            if text.startswith("[T]"):
                obs["recipe"] = cwd
                parts = text[4:].split("|")
                if len(parts) >= 3:
                    obs["justfile_directory_raw"] = parts[1]
                    obs["invocation_directory"], obs["justfile_directory"], obs["source_directory"] = [os.path.realpath(x) for x in parts[:3]]
            elif text.startswith("[Bint]"):
                obs["backtick"] = cwd
            elif text.startswith("[Bmod-root]"):
                obs["rootBacktick"] = cwd
        ctx, attrs, root_ctx = model_ctx(d, c)
        return {"rc": p.returncode, "obs": obs, "spec": spec(d, c), "d": d, "stderr": p.stderr.decode("utf-8", "replace")[-400:],
                "req": {"op": "workdir", "ctx": ctx, "attrs": attrs, "rootCtx": root_ctx}, "argv": lay["argv"], "texts": lay["texts"],
                "cwd": lay["cwd"]}


def run(report):
    tier = report.tier
    just, bt = C.build_just()
    C.proof_stage(report, "C09", thorough=(tier == "thorough"))
    drv = C.Driver()
    cfgs, total = space(tier, report.seed)
    results = C.pmap(run_cfg, cfgs)
    model = drv.pbatch([r["req"] for r in results], chunk=2000)
    # relative --justfile paths: what Search::clean makes of them (Just.Path.searchClean), as text
    rel_idx = [i for i, c in enumerate(cfgs) if c["flags"] in ("jfrel", "jfwdrel")]
    rel_model = drv.pbatch([{"op": "clean", "p": results[i]["cwd"] + "|" + results[i]["argv"][results[i]["argv"].index("--justfile") + 1]} for i in rel_idx], chunk=2000)
    rel_by_index = dict(zip(rel_idx, rel_model))
    stats = {"configurations": len(cfgs), "space": total, "by_file": {}, "no_cd": 0, "scripts": 0, "script_attribute": 0, "with_flags": 0}
    distinct = set()
    samples = []
    keys = ["recipe", "backtick", "rootBacktick", "invocation_directory", "justfile_directory", "source_directory"]
    for ci, (c, r, m) in enumerate(zip(cfgs, results, model)):
        if "fatal" in m:
            raise C.BuildError("model driver: " + m["fatal"])
        if ci in rel_by_index and r["rc"] == 0 and r["obs"].get("justfile_directory_raw") is not None:
            mj = rel_by_index[ci]["searchClean"]
            stats["relative_justfile_paths"] = stats.get("relative_justfile_paths", 0) + 1
            if os.path.dirname(mj) != r["obs"]["justfile_directory_raw"]:
                report.failure("c09-model-search-clean", "justfile_directory() prints %r, Just.Path.searchClean gives %r" % (r["obs"]["justfile_directory_raw"], os.path.dirname(mj)),
                               {"correspondence": "C09 --justfile path vs Just.Path.searchClean", "cwd": r["cwd"], "argv": r["argv"], "model": mj,
                                "impl": r["obs"]["justfile_directory_raw"]}, no_input=True)
        stats["by_file"][c["file"]] = stats["by_file"].get(c["file"], 0) + 1
        stats["no_cd"] += c["nocd"]
        stats["scripts"] += bool(c["script"])
        stats["script_attribute"] += c["script"] == "attr"
        stats["with_flags"] += c["flags"] != "none"
        strip = lambda p: p.replace(r["d"], "<D>") if isinstance(p, str) else p
        obs = {k: strip(r["obs"].get(k)) for k in keys}
        want = {k: strip(v) for k, v in r["spec"].items()}
        distinct.add(json.dumps([c, obs], sort_keys=True))
        replay = {"config": c, "argv": [strip(a) for a in r["argv"]], "files": {k: strip(v) for k, v in r["texts"].items()},
                  "observed": obs, "expected": want, "stderr": r["stderr"]}
        if r["rc"] != 0:
            report.failure("c09-run-failed", "configuration did not run: " + r["stderr"][-200:], replay, no_input=True)
            continue
        bad = [k for k in keys if obs[k] != want[k]]
        if bad:
            kind = bad[0] + (":script" if c["script"] and bad[0] == "recipe" else "")
            report.failure("c09-dir:%s" % kind, "%s is %s, documented: %s" % (bad[0], obs[bad[0]], want[bad[0]]), replay)
            continue
        if c["attr"] == "relsym":
            continue        # (symbolic links are the file system's business: statement only, the model has no links)
        mm = {k: "/" + "/".join(m[k]) for k in keys}
        mm = {k: strip(v) for k, v in mm.items()}
        if mm != obs:
            report.failure("c09-model", "Lean model and implementation disagree (statement oracle holds)",
                           dict(replay, correspondence="C09 directories vs Just.Workdir", model=mm), no_input=True)
        if len(samples) < 3 and c["file"] == "subimp" and c["attr"] == "rel" and c["set_sub"] == "rel" and not c["nocd"]:
            samples.append({"config": c, "observed": obs})
    report.coverage.update({
        "evaluations": len(cfgs),
        "distinct_nontrivial": len(distinct),
        "rule": "product of {file containing the recipe: root, import of root, submodule, import of the submodule, module declared in an imported file, module nested in the submodule} x `set working-directory` in root and submodule {none, relative, absolute} x {no flags, --justfile, --justfile + --working-directory, the same two with relative paths in three spellings} x invocation directory {justfile dir, nested subdir, module dir, unrelated dir} x attribute {none, relative, absolute} x [no-cd] x {linewise, shebang, [script]} x {direct, via dependency, via an alias of the root, via an alias declared inside the submodule}, plus the recipe named as DIR/recipe with seven (invocation directory, DIR) pairs whose DIR has no justfile of its own; %s; distinct = distinct (configuration, observed directories)" % ("complete, except for 5000-configuration samples of the symbolic-link attribute and of the DIR/recipe forms" if tier == "thorough" else "random sample of the space (size in stats)"),
        "samples": samples,
        "exhaustive": tier == "thorough",
        "traces_validated_against_impl": len(cfgs),
        "stats": stats,
        "build_s": round(bt, 1),
    })
    report.assumptions += [
        "paths are compared after realpath; symlink resolution and lexiclean are the OS's / a crate's",
        "cwd and directory-function values are observed through the logging shell",
    ]


def replay(report, path):
    body = json.load(open(path))
    C.build_just()
    r = run_cfg(body["replay"]["config"])
    print(json.dumps({"observed": r["obs"], "expected": r["spec"]}, indent=1))
    report.coverage.update({"obligations": 1, "discharged": 1, "checker_cmd": "replay", "trusted_base": []})
    if any(r["obs"].get(k) != v for k, v in r["spec"].items()):
        report.failure(body["signature"], "replay still fails", body["replay"])
