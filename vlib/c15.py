"""C15 - imports merge into the importer; modules are isolated namespaces."""
import itertools
import json
import os
import subprocess

from . import common as C

EDGE_KINDS = [None, "import", "import?", "mod", "mod?"]


def gen_graph(rng, nfiles):
    """files[i] = {"edges": [(kind, target or 'missing')], "r": bool, "v": bool}"""
    files = []
    cyclic_stream = rng.random() < 0.2      # most graphs are acyclic (forward edges only); a separate stream has any edge
    strict_missing = rng.random() < 0.15
    for i in range(nfiles):
        edges = []
        for t in list(range(nfiles)) + ["missing"]:
            if t == "missing":
                k = rng.choices(EDGE_KINDS, weights=[12, 1 if strict_missing else 0, 2, 1 if strict_missing else 0, 2])[0]
            elif cyclic_stream:
                k = rng.choices(EDGE_KINDS, weights=[8, 3, 1, 2, 1])[0]
            elif t > i:
                k = rng.choices(EDGE_KINDS, weights=[4, 4, 1, 3, 1])[0]
            else:
                k = None
            if k:
                edges.append((k, t))
        rng.shuffle(edges)
        files.append({"edges": edges, "r": rng.random() < 0.45, "v": rng.random() < 0.35})
    allow = rng.random() < 0.6
    # a setting may be written once per module: only files that nobody imports carry it
    imported = {t for f in files for (k, t) in f["edges"] if k.startswith("import")}
    for i, f in enumerate(files):
        f["set"] = allow and i not in imported
    # files live in different directories: a path in an `import` / `mod` statement is relative to the directory of the
    # file that contains the statement
    dirs = [""] + [rng.choice(["", "", "sub", "sub/deep", "other"]) for _ in range(nfiles - 1)]
    return {"files": files, "allow": allow, "dirs": dirs}


def fname(i):
    return "justfile" if i == 0 else "f%d.just" % i


def fpath(g, i):
    return os.path.join(g.get("dirs", [""] * len(g["files"]))[i], fname(i))


def file_text(g, i):
    f = g["files"][i]
    here = g.get("dirs", [""] * len(g["files"]))[i]
    t = ""
    if f["set"]:
        t += "set allow-duplicate-recipes\nset allow-duplicate-variables\n"
    for k, (kind, tgt) in enumerate(f["edges"]):
        path = "missing.just" if tgt == "missing" else os.path.relpath(fpath(g, tgt), here or ".")
        # the same file under three spellings: a cycle is a cycle however the path is written
        path = ["%s", "./%s", "pad/../%s"][(i + k + (0 if tgt == "missing" else tgt)) % 3] % path
        if kind.startswith("import"):
            t += "%s '%s'\n" % (kind, path)
        else:
            name = "mm%d" % i if tgt == "missing" else "m%d" % tgt
            t += "%s %s '%s'\n" % (kind, name, path)
    if f["v"]:
        # `av` refers forward (in name order) to this module's own `v`; a `v` of another module must not get in between
        t += "av := v\nv := 'F%d'\n" % i
    t += "\nu%d:\n  [U%d]\n" % (i, i)
    if f["v"]:
        t += "\ns%d:\n  [S%d] {{v}} {{av}}\n" % (i, i)
    if f["r"]:
        t += "\nr:\n  [R%d] \n" % i
    return t


def model_files(g):
    out = []
    for i, f in enumerate(g["files"]):
        items = []
        for kind, tgt in f["edges"]:
            target = None if tgt == "missing" else tgt
            opt = kind.endswith("?")
            if kind.startswith("import"):
                items.append({"import": {"target": target, "optional": opt}})
            else:
                name = "mm%d" % i if tgt == "missing" else "m%d" % tgt
                items.append({"module": {"name": name, "target": target, "optional": opt}})
        if f["v"]:
            items.append({"variable": {"name": "v"}})
        items.append({"recipe": {"name": "u%d" % i}})
        if f["v"]:
            items.append({"recipe": {"name": "s%d" % i}})
        if f["r"]:
            items.append({"recipe": {"name": "r"}})
        out.append({"items": items, "allowDupRecipes": f["set"], "allowDupVars": f["set"]})
    return out


# ---- the statement, directly

def defects(g):
    """kinds of load-time defects reachable from the root: circular / missing"""
    kinds = set()
    n = len(g["files"])

    def walk(i, chain):
        for kind, tgt in g["files"][i]["edges"]:
            if tgt == "missing":
                if not kind.endswith("?"):
                    kinds.add("missing")
                continue
            if tgt in chain:
                kinds.add("circular")
                continue
            walk(tgt, chain + [tgt])

    walk(0, [0])
    return kinds


def closure_paths(g, root):
    """import closure of a module root: file -> list of import-depths along every path (cycle-free graphs only)"""
    depths = {}

    def walk(i, d):
        depths.setdefault(i, []).append(d)
        for kind, tgt in g["files"][i]["edges"]:
            if kind.startswith("import") and tgt != "missing":
                walk(tgt, d + 1)

    walk(root, 0)
    return depths


def global_depths(g):
    """depth of every load of every file (import and mod edges), cycle-free graphs only"""
    depths = {}

    def walk(i, d):
        depths.setdefault(i, set()).add(d)
        for kind, tgt in g["files"][i]["edges"]:
            if tgt != "missing":
                walk(tgt, d + 1)

    walk(0, 0)
    return depths


def loads(g):
    """how many times each file is loaded (cycle-free graphs only)"""
    cnt = {}

    def walk(i):
        cnt[i] = cnt.get(i, 0) + 1
        for kind, tgt in g["files"][i]["edges"]:
            if tgt != "missing":
                walk(tgt)

    walk(0)
    return cnt


def submodules(g, root):
    out = []
    for i in closure_paths(g, root):
        for kind, tgt in g["files"][i]["edges"]:
            if kind.startswith("mod") and tgt != "missing":
                out.append(("m%d" % tgt, tgt))
    return out


def parse_tree(j, g):
    """module tree from the JSON dump: recipes -> winning file id via the body marker"""
    def rec(m, name):
        recipes = {}
        namepaths = {}
        for rn, rv in m["recipes"].items():
            body = json.dumps(rv["body"])
            import re
            mm = re.search(r"\[[URS](\d+)\]", body)
            recipes[rn] = int(mm.group(1)) if mm else None
            namepaths[rn] = rv.get("namepath")
        vars_ = {}
        for vn, vv in m["assignments"].items():
            if vn == "av":
                continue        # observed through the recipes that print it
            val = vv["value"]
            vars_[vn] = int(val[1:]) if isinstance(val, str) and val.startswith("F") else None
        return {"name": name, "recipes": recipes, "namepaths": namepaths, "vars": vars_, "subs": {k: rec(v, k) for k, v in m["modules"].items()}}
    return rec(j, "")


def model_tree(t):
    return {"name": t["name"], "recipes": {n: f for n, f in t["recipes"]}, "vars": {n: f for n, f in t["vars"]},
            "subs": {s["name"]: model_tree(s) for s in t["subs"]}}


def run_case(g):
    with C.scratch("c15") as d:
        for i in range(len(g["files"])):
            os.makedirs(os.path.join(d, os.path.dirname(fpath(g, i)), "pad"), exist_ok=True)
            open(os.path.join(d, fpath(g, i)), "w").write(file_text(g, i))
        logp = os.path.join(d, "vsh.log")
        env = dict(C.BASE_ENV)
        env.update({"HOME": d, "TMPDIR": d, "VSH_LOG": logp})
        res = {}
        try:
            p = subprocess.run([C.JUST, "--dump", "--dump-format", "json"], cwd=d, env=env, stdin=subprocess.DEVNULL,
                               stdout=subprocess.PIPE, stderr=subprocess.PIPE, timeout=10)
        except subprocess.TimeoutExpired:
            return {"timeout": True}
        err = p.stderr.decode("utf-8", "replace")
        res["rc"] = p.returncode
        res["stderr"] = err[-300:]
        if p.returncode == 0:
            res["tree"] = parse_tree(json.loads(p.stdout), g)
            # both path forms address the same recipe
            res["paths"] = []
            for mname, sub in res["tree"]["subs"].items():
                for rn in list(sub["recipes"])[:2]:
                    outs = []
                    for argv in ([mname + "::" + rn], [mname, rn]):
                        if os.path.exists(logp):
                            os.unlink(logp)
                        q = subprocess.run([C.JUST, "--shell", C.VSH, "--shell-arg", "-c"] + argv, cwd=d, env=env, stdin=subprocess.DEVNULL, stdout=subprocess.PIPE,
                                           stderr=subprocess.PIPE, timeout=10)
                        e = C.read_vsh_log(logp)
                        outs.append((q.returncode, e[0]["argv"][2].strip() if e else None))
                    res["paths"].append({"module": mname, "recipe": rn, "colon": outs[0], "spaced": outs[1], "own_v": sub["vars"].get("v")})
            # recipes of SIBLING modules on one command line see their own module's variables
            res["siblings"] = []
            mods = [(mn, sub) for mn, sub in res["tree"]["subs"].items() if any(x.startswith("s") for x in sub["recipes"])]
            for (ma, sa), (mb, sb) in list(itertools.combinations(mods, 2))[:2]:
                ra = [x for x in sa["recipes"] if x.startswith("s")][0]
                rb = [x for x in sb["recipes"] if x.startswith("s")][0]
                if os.path.exists(logp):
                    os.unlink(logp)
                q = subprocess.run([C.JUST, "--shell", C.VSH, "--shell-arg", "-c", ma + "::" + ra, mb + "::" + rb], cwd=d, env=env,
                                   stdin=subprocess.DEVNULL, stdout=subprocess.PIPE, stderr=subprocess.PIPE, timeout=10)
                e = [x["argv"][2].strip() for x in C.read_vsh_log(logp)]
                res["siblings"].append({"argv": [ma + "::" + ra, mb + "::" + rb], "ran": e, "same_file": sa["recipes"][ra] == sb["recipes"][rb],
                                        "want": ["[S%s] F%s F%s" % (ra[1:], sa["vars"].get("v"), sa["vars"].get("v")),
                                                 "[S%s] F%s F%s" % (rb[1:], sb["vars"].get("v"), sb["vars"].get("v"))]})
        else:
            kind = "other"
            for pat, k in [("is circular", "circular"), ("Could not find source file for import", "missing"),
                           ("Could not find source file for module", "missing"), ("first defined on line", "duplicate"),
                           ("has multiple definitions", "duplicate"), ("is redefined", "duplicate")]:
                if pat in err:
                    kind = k
                    break
            res["error"] = kind
        return res


MODULE_LOCATIONS = ["foo.just", "foo/mod.just", "foo/justfile", "foo/.justfile", "foo/Justfile", "foo/JUSTFILE"]


def location_cases():
    cases = []
    for k in range(len(MODULE_LOCATIONS)):
        cases.append([MODULE_LOCATIONS[k]])
    for a, b in itertools.combinations(range(len(MODULE_LOCATIONS)), 2):
        cases.append([MODULE_LOCATIONS[a], MODULE_LOCATIONS[b]])
    cases.append([])
    return cases


def run_location(locs):
    with C.scratch("c15l") as d:
        open(os.path.join(d, "justfile"), "w").write("mod foo\n")
        for l in locs:
            os.makedirs(os.path.dirname(os.path.join(d, l)) or d, exist_ok=True)
            open(os.path.join(d, l), "w").write("x:\n  true\n")
        p = subprocess.run([C.JUST, "--summary"], cwd=d, env=dict(C.BASE_ENV, HOME=d), stdin=subprocess.DEVNULL,
                           stdout=subprocess.PIPE, stderr=subprocess.PIPE, timeout=10)
        return {"rc": p.returncode, "out": p.stdout.decode().strip(), "err": p.stderr.decode()[-200:]}


def run(report):
    tier = report.tier
    just, bt = C.build_just()
    C.proof_stage(report, "C15", thorough=(tier == "thorough"))
    drv = C.Driver()
    n = 2500 if tier == "quick" else 40000
    graphs = []
    for i in range(n):
        rng = C.case_rng(report.seed, i, "c15")
        graphs.append(gen_graph(rng, rng.choice([2, 3, 3] if tier == "quick" else [2, 3, 3, 4, 4, 5])))
    results = C.pmap(run_case, graphs)
    model = drv.pbatch([{"op": "imports", "files": model_files(g)} for g in graphs], chunk=1000)
    stats = {"graphs": n, "accepted": 0, "errors": {}, "with_cycle": 0, "diamonds": 0, "path_form_pairs": 0, "override_checked": 0,
             "module_location_cases": 0, "files_outside_root_directory": 0}
    distinct = set()
    samples = []
    for g, r, m in zip(graphs, results, model):
        if "fatal" in m:
            raise C.BuildError("model driver: " + m["fatal"])
        files = {fpath(g, i): file_text(g, i) for i in range(len(g["files"]))}
        stats["files_outside_root_directory"] += sum(1 for x in g.get("dirs", []) if x)
        distinct.add(json.dumps(files, sort_keys=True))
        replay = {"files": files, "observed": r}
        if r.get("timeout"):
            report.failure("c15-hang", "loading did not finish within 10 s (a cyclic chain was followed?)", replay)
            continue
        dk = defects(g)
        if "circular" in dk:
            stats["with_cycle"] += 1
        if dk:
            # a cycle / missing file reachable from the root must be reported, as one of the defects present
            if r["rc"] == 0:
                report.failure("c15-defect-accepted:%s" % sorted(dk)[0], "a justfile with a %s reference was accepted" % " / ".join(sorted(dk)), replay)
                continue
            if r["error"] not in dk and not (r["error"] == "duplicate"):
                report.failure("c15-wrong-error", "reported %s, present defects %s" % (r["error"], sorted(dk)), replay)
                continue
            stats["errors"][r["error"]] = stats["errors"].get(r["error"], 0) + 1
        else:
            # defect-free loading: accepted unless duplicates without the setting
            def dup_in(root, seen_mods):
                cl = closure_paths(g, root)
                cnt_r = sum(1 for i in cl if g["files"][i]["r"])
                cnt_v = sum(1 for i in cl if g["files"][i]["v"])
                subs = submodules(g, root)
                names = [s[0] for s in subs]
                allow = any(g["files"][i]["set"] for i in cl)
                dup = (not allow and (cnt_r > 1 or cnt_v > 1)) or len(set(names)) < len(names)
                for nm, sr in subs:
                    if dup_in(sr, seen_mods):
                        dup = True
                return dup
            want_dup = dup_in(0, set())
            if want_dup:
                if r["rc"] == 0:
                    report.failure("c15-duplicate-accepted", "duplicate definitions without the allow-duplicate setting were accepted", replay)
                    continue
                stats["errors"]["duplicate"] = stats["errors"].get("duplicate", 0) + 1
            else:
                if r["rc"] != 0:
                    report.failure("c15-valid-rejected", "a valid file graph (diamonds and optional missing files included) was rejected: %s" % r["stderr"][-150:], replay)
                    continue
                stats["accepted"] += 1
                # every file of each module's import closure contributes; shallower wins where depths are unique
                def check(root, tree, path):
                    cl = closure_paths(g, root)
                    if any(len(v) > 1 for v in cl.values()):
                        stats["diamonds"] += 1
                    for i in cl:
                        if "u%d" % i not in tree["recipes"]:
                            return "module %s lacks recipe u%d of imported file %s" % (path or "root", i, fname(i))
                    for nm in tree["recipes"]:
                        if nm[0] in "us" and int(nm[1:]) not in cl:
                            return "module %s contains u%s of a file outside its import closure" % (path or "root", nm[1:])
                    for name, key, table in (("r", "r", tree["recipes"]), ("v", "v", tree["vars"])):
                        cands = [i for i in cl if g["files"][i][key]]
                        if not cands:
                            if name in table:
                                return "module %s sees %s of another module" % (path or "root", name)
                            continue
                        if name not in table:
                            return "module %s lacks %s" % (path or "root", name)
                        mins = {i: min(cl[i]) for i in cands}
                        best = min(mins.values())
                        winners = [i for i in cands if mins[i] == best]
                        if len(winners) == 1:
                            stats["override_checked"] += 1
                            if table[name] != winners[0]:
                                gd = global_depths(g)
                                multi = any(len(gd.get(i, ())) > 1 for i in cands)
                                return ("KNOWN" if multi else "") + "module %s: %s from %s (depth %d) should win, got %s" % (
                                    path or "root", name, fname(winners[0]), best, fname(table[name]) if table[name] is not None else None)
                    # the address of a recipe (`namepath` in the dump) is its module's path and its name, also when the recipe
                    # came in through an import (files loaded more than once fall under the recorded finding)
                    gd_ = global_depths(g)
                    for nm, src_file in tree["recipes"].items():
                        if src_file is not None and len(gd_.get(src_file, ())) == 1 and loads(g).get(src_file, 0) == 1:
                            stats["namepaths_checked"] = stats.get("namepaths_checked", 0) + 1
                            want_np = (path + "::" + nm) if path else nm
                            if tree.get("namepaths", {}).get(nm) != want_np:
                                return "module %s: recipe %s has address %s in the dump, declared %s" % (path or "root", nm, tree["namepaths"].get(nm), want_np)
                    subs = submodules(g, root)
                    if sorted(tree["subs"]) != sorted(s[0] for s in subs):
                        return "module %s has submodules %s, declared %s" % (path or "root", sorted(tree["subs"]), sorted(s[0] for s in subs))
                    for nm, sr in subs:
                        e = check(sr, tree["subs"][nm], path + "::" + nm if path else nm)
                        if e:
                            return e
                    return None

                e = check(0, r["tree"], "")
                if e:
                    if e.startswith("KNOWN"):
                        report.failure("c15-override-depth-of-last-load", e[5:], replay)
                    else:
                        report.failure("c15-merge:%s" % ("override" if "should win" in e else "closure"), e, replay)
                    continue
                for sib in r.get("siblings", []):
                    if sib["ran"] != sib["want"] and sib["same_file"]:
                        report.failure("c15-file-in-two-modules-runs-once", "one source file is part of two modules (%s): the second module's recipe is treated as already run" % sib["argv"], replay)
                    elif sib["ran"] != sib["want"]:
                        report.failure("c15-sibling-modules", "recipes of two sibling modules on one command line: ran %s, each module's own variable gives %s" % (sib["ran"], sib["want"]), replay)
                        break
                for pth in r.get("paths", []):
                    stats["path_form_pairs"] += 1
                    if pth["recipe"].startswith("s") and pth["colon"][1] is not None and pth.get("own_v") is not None and \
                            pth["colon"][1].split()[1:] != ["F%s" % pth["own_v"]] * 2:
                        report.failure("c15-module-variable", "`%s::%s` prints %r: both values are the module's own `v` = F%s (a forward reference inside a module must not see another module's variable)" % (
                            pth["module"], pth["recipe"], pth["colon"][1], pth["own_v"]), replay)
                        break
                    if pth["colon"] != pth["spaced"] or pth["colon"][0] != 0:
                        report.failure("c15-path-forms", "`%s::%s` and `%s %s` behave differently: %s vs %s" % (
                            pth["module"], pth["recipe"], pth["module"], pth["recipe"], pth["colon"], pth["spaced"]), replay)
                        break
        # model correspondence
        if "error" in m:
            mk = list(m["error"].keys())[0] if isinstance(m["error"], dict) else m["error"]
            mk = {"circular": "circular", "missingImport": "missing", "missingModule": "missing", "duplicateRecipe": "duplicate",
                  "duplicateVariable": "duplicate", "duplicateModule": "duplicate"}.get(mk, mk)
            if r["rc"] == 0 or (len(dk) <= 1 and r.get("error") != mk and not (dk and mk == "duplicate") and not (r.get("error") == "duplicate" and dk)):
                report.failure("c15-model", "Lean model reports %s, implementation %s" % (mk, r.get("error", "accepted")),
                               dict(replay, correspondence="C15 vs Just.Imports", model=m), no_input=True)
        else:
            def strip_np(t):
                return {"name": t["name"], "recipes": t["recipes"], "vars": t["vars"], "subs": {k: strip_np(v) for k, v in t["subs"].items()}}

            if r["rc"] != 0 or model_tree(m["tree"]) != strip_np(r["tree"]):
                report.failure("c15-model", "Lean model and implementation disagree on the merged module tree",
                               dict(replay, correspondence="C15 vs Just.Imports", model=model_tree(m["tree"]) if "tree" in m else m), no_input=True)
        if len(samples) < 2 and r.get("rc") == 0 and r["tree"]["subs"] and any(len(v) > 1 for v in closure_paths(g, 0).values()):
            samples.append({"files": files, "tree": r["tree"]})
    # module files at each of the searched locations
    for locs in location_cases():
        stats["module_location_cases"] += 1
        r = run_location(locs)
        # case variants of `justfile` in one directory are distinct files on Linux
        if len(locs) == 1 and (r["rc"] != 0 or r["out"] != "foo::x"):
            report.failure("c15-module-location:%s" % locs[0], "module file at %s was not found" % locs[0], {"locations": locs, "observed": r})
        if len(locs) == 2 and (r["rc"] == 0 or "Found multiple source files" not in r["err"]):
            report.failure("c15-module-ambiguous", "two candidate module files %s were not reported as ambiguous" % locs, {"locations": locs, "observed": r})
        if len(locs) == 0 and r["rc"] == 0:
            report.failure("c15-module-missing", "missing module file accepted", {"locations": locs, "observed": r})
    report.coverage.update({
        "evaluations": n + stats["module_location_cases"],
        "distinct_nontrivial": len(distinct),
        "rule": "random file graphs with %s files: per ordered pair an edge in {none, import, import?, mod, mod?} (self and mutual cycles, diamonds), edges to a missing file, a shared recipe `r` and variable `v` in any file, a unique recipe per file, allow-duplicate settings, files spread over directories (paths relative to the containing file, three spellings); the merged module tree from the JSON dump (winning file per name via body marker / value), error class, 10 s timeout, `a::r` vs `a r`; plus every module-file location alone and in pairs; distinct = distinct file sets" % ("2-3" if tier == "quick" else "2-5"),
        "samples": samples,
        "traces_validated_against_impl": n,
        "stats": stats,
        "build_s": round(bt, 1),
    })
    report.assumptions += [
        "with several defects in one graph any of the present defect classes is accepted as the reported one",
        "the override rule is checked where a unique shallowest definition exists; ties (equal depth) are compared with the model only",
    ]


def replay(report, path):
    body = json.load(open(path))
    C.build_just()
    rp = body["replay"]
    if "files" in rp:
        with C.scratch("c15r") as d:
            for f, t in rp["files"].items():
                os.makedirs(os.path.join(d, os.path.dirname(f), "pad"), exist_ok=True)
                open(os.path.join(d, f), "w").write(t)
            p = subprocess.run([C.JUST, "--dump", "--dump-format", "json"], cwd=d, env=dict(C.BASE_ENV, HOME=d), stdout=subprocess.PIPE,
                               stderr=subprocess.PIPE, timeout=15)
            print(json.dumps({"rc": p.returncode, "stderr": p.stderr.decode()[-300:]}, indent=1))
    report.coverage.update({"obligations": 1, "discharged": 1, "checker_cmd": "replay", "trusted_base": []})
