"""C19 - unstable features are gated; stable ones never are."""
import itertools
import json
import os
import subprocess

from . import common as C
from .exprs import And, Assert, Call, Concat, Cond, Group, JoinL, Or, Str, Var, pr

CONSTRUCTS = ["and", "or", "which", "script", "interp", "none"]
POSITIONS = ["assign", "default", "deparg", "interp", "fnarg", "condside", "branch", "assertmsg", "group", "joinop", "import", "submodule"]
OPTINS = [("none", None), ("flag", None), ("set-root", None), ("set-module", None), ("set-true-module", None),
          ("set-false-module", None), ("set-false-root", None)] + [("env", v) for v in
          ["1", "true", "yes", "x", "false", "0", "", "no", "off", "n", "f", "FALSE", "No"]] + \
         [("flag+env", v) for v in ["0", "false", ""]] + [("set-module+env", v) for v in ["0", "false", ""]]
# flag+env / set-module+env: an opt-in given together with a JUST_UNSTABLE value that is no opt-in by itself - any one opt-in is enough
CMDS = [("run", ["r", "v"]), ("list", ["--list"]), ("summary", ["--summary"]), ("dump", ["--dump"]), ("show", ["--show", "r"]),
        ("evaluate", ["--evaluate"]), ("variables", ["--variables"]), ("groups", ["--groups"]), ("fmt", ["--fmt", "--check"]),
        ("dumpjson", ["--dump", "--dump-format", "json"])]


def unstable_expr(construct):
    if construct == "and":
        return And(Str("a"), Str("b"))
    if construct == "or":
        return Or(Str(""), Str("b"))
    if construct == "which":
        return Call("which", Str("sh"))
    return Str("plain")


def place(construct, position):
    """Return (model expression, files) with the construct at the position."""
    u = unstable_expr(construct)
    wrap = {
        "assign": u, "default": u, "deparg": u, "interp": u, "import": u, "submodule": u,
        "fnarg": Call("replace", Str("abc"), Group(u) if construct in ("and", "or") else u, Str("x")),
        "condside": Cond(Str("x"), "eq", Group(u) if construct in ("and", "or") else u, Str("t"), Str("e")),
        "branch": Cond(Str("x"), "eq", Str("x"), Str("t"), u),
        "assertmsg": Assert(Str("x"), "eq", Str("x"), u),
        "group": Group(u),
        "joinop": JoinL(Str("a"), Concat(Group(u), Str("z"))),
    }[position]
    return wrap


def build(case):
    construct, position, (optkind, envval), (cmdname, cmdargv) = case["construct"], case["position"], case["optin"], case["cmd"]
    shell = 'set shell := ["%s", "-c"]\n' % C.VSH
    files = {}
    root_exprs, sub_exprs = [], []
    root = shell
    sub = shell
    imp = ""
    where = "root"       # which module records the feature
    e = place(construct, position) if construct in ("and", "or", "which") else None
    head = "r p='d':"
    dep = ""
    body = "  [T] {{p}}\n"
    assign = ""
    if construct in ("and", "or", "which"):
        text = pr(e)
        if position in ("assign", "fnarg", "condside", "branch", "assertmsg", "group", "joinop"):
            assign = "x := %s\n" % text
            root_exprs.append(e)
        elif position == "default":
            head = "r p=(%s):" % text
            root_exprs.append(e)
        elif position == "deparg":
            head = "r p='d': (d (%s))" % text
            dep = "d q:\n  [D] {{q}}\n"
            root_exprs.append(e)
        elif position == "interp":
            body = "  [T] {{p}} {{%s}}\n" % text
            root_exprs.append(e)
        elif position == "import":
            imp = "y := %s\n" % text
            root_exprs.append(e)
        elif position == "submodule":
            sub += "y := %s\n" % text
            sub_exprs.append(e)
            where = "sub"
    script_root = script_sub = interp_root = interp_sub = False
    script_recipe = "[script('%s')]\ns:\n  [S]\n" % C.VSH
    if construct == "script":
        if position == "submodule":
            sub += script_recipe
            script_sub = True
            where = "sub"
        elif position == "import":
            imp += script_recipe
            script_root = True
        else:
            root += script_recipe
            script_root = True
    if construct == "interp":
        line = "set script-interpreter := ['%s']\n" % C.VSH
        if position == "submodule":
            sub += line
            interp_sub = True
            where = "sub"
        else:
            root += line
            interp_root = True
    if construct == "none" and position == "decoy-names":
        # a variable and a parameter called `which`, referenced in every expression context
        assign = "which := 'w'\nscript := which\nz := replace(which, 'w', script)\n"
        head = "r which='d': (d which)"
        dep = "d q:\n  [D] {{q}}\n"
        body = "  [T] {{which}} {{ if which == script { which } else { script } }}\n"
        root_exprs += [Var("which"), Call("replace", Var("which"), Str("w"), Var("script")), Var("which"),
                       Cond(Var("which"), "eq", Var("script"), Var("which"), Var("script"))]
        sub += "which := 'sw'\nu := which + which\n"
    elif construct == "none" and position == "decoy-texts":
        assign = "x := 'a && b || which(c)'\ny := `[B] a && b || c`\n# which() && || [script]\n"
        body = "  [T] {{p}} && true || which sh\n"
        root_exprs += [Str("a && b || which(c)")]
    elif construct == "none" and position == "decoy-recipes":
        assign = ""
        dep = "[group('script')]\nwhich:\n  [W]\n\nscript: which\n  [S]\n"
        imp += "[doc('uses && and ||')]\nscript-interpreter:\n  [SI]\n"
    set_root = optkind == "set-root" or (optkind in ("set-module", "set-true-module", "set-module+env") and where == "root")
    set_sub = optkind in ("set-module", "set-true-module", "set-module+env") and where == "sub"
    if set_root:
        root += "set unstable := true\n" if optkind == "set-true-module" else "set unstable\n"
    if set_sub:
        sub += "set unstable := true\n" if optkind == "set-true-module" else "set unstable\n"
    # `set unstable := false` is no opt-in, wherever it stands
    if optkind == "set-false-root" or (optkind == "set-false-module" and where == "root"):
        root += "set unstable := false\n"
    if optkind == "set-false-module" and where == "sub":
        sub += "set unstable := false\n"
    root += "import 'imp.just'\nmod sub\n" + assign + "\n" + head + "\n" + body + "\n" + dep
    sub += "\nsr:\n  [SR]\n"
    files = {"justfile": root, "imp.just": imp + "\nir:\n  [IR]\n", "sub.just": sub}
    model = {"exprs": root_exprs, "scriptRecipe": script_root, "scriptInterpreter": interp_root, "setUnstable": set_root,
             "subs": [{"exprs": sub_exprs, "scriptRecipe": script_sub, "scriptInterpreter": interp_sub, "setUnstable": set_sub, "subs": []}]}
    argv = (["--unstable"] if optkind in ("flag", "flag+env") else []) + cmdargv
    env = {"JUST_UNSTABLE": envval} if optkind in ("env", "flag+env", "set-module+env") else {}
    uses = construct != "none"
    return files, model, argv, env, {"uses": uses, "where": where, "set_root": set_root, "set_sub": set_sub}


def space(tier, seed):
    allc = []
    for construct in CONSTRUCTS:
        if construct in ("and", "or", "which"):
            positions = POSITIONS
        elif construct == "script":
            positions = ["assign", "import", "submodule"]
        elif construct == "interp":
            positions = ["assign", "submodule"]
        else:
            # stable justfiles, including ones whose NAMES / TEXTS resemble the unstable constructs
            positions = ["assign", "decoy-names", "decoy-texts", "decoy-recipes"]
        for position, optin, cmd in itertools.product(positions, OPTINS, CMDS):
            allc.append({"construct": construct, "position": position, "optin": optin, "cmd": cmd})
            if cmd[0] == "run":
                # another way of loading the same justfile: found through `set fallback` from a subdirectory whose own
                # justfile lacks the recipe (with and without `set unstable` there, which must not count for the parent)
                for via in ("fallback", "fallback-child-unstable"):
                    allc.append({"construct": construct, "position": position, "optin": optin, "cmd": cmd, "via": via})
    total = len(allc)
    if tier == "quick":
        rng = C.case_rng(seed, 0, "c19")
        rng.shuffle(allc)
        allc = allc[:2500]
    return allc, total


def run_case(case):
    files, model, argv, env_extra, info = build(case)
    with C.scratch("c19") as d:
        for f, t in files.items():
            open(os.path.join(d, f), "w").write(t)
        logp = os.path.join(d, "vsh.log")
        env = dict(C.BASE_ENV)
        env.update({"HOME": d, "TMPDIR": d, "VSH_LOG": logp})
        env.update(env_extra)
        cwd = d
        via = case.get("via", "direct")
        if via != "direct":
            cwd = os.path.join(d, "child")
            os.makedirs(cwd)
            child = 'set shell := ["%s", "-c"]\nset fallback\n%s\nother:\n  [O]\n' % (
                C.VSH, "set unstable\n" if via == "fallback-child-unstable" else "")
            open(os.path.join(cwd, "justfile"), "w").write(child)
            files = dict(files, **{"child/justfile": child})
        p = subprocess.run([C.JUST] + argv, cwd=cwd, env=env, stdin=subprocess.DEVNULL, stdout=subprocess.PIPE,
                           stderr=subprocess.PIPE)
        stderr = p.stderr.decode("utf-8", "replace")
        spawned = len(C.read_vsh_log(logp))
        return {"rc": p.returncode, "refused": "currently unstable" in stderr, "spawned": spawned, "stderr": stderr[-300:],
                "files": files, "model": model, "argv": argv, "env": env_extra, "info": info, "cwd": os.path.relpath(cwd, d)}


def doc_truthy(v):
    return v is not None and v not in ("false", "0", "")


def run(report):
    tier = report.tier
    just, bt = C.build_just()
    C.proof_stage(report, "C19", thorough=(tier == "thorough"))
    drv = C.Driver()
    cases, total = space(tier, report.seed)
    results = C.pmap(run_case, cases)
    reqs = []
    for c, r in zip(cases, results):
        cmd = {"run": "run", "summary": "summary", "fmt": "fmt"}.get(c["cmd"][0], "other")
        req = {"op": "unstable", "root": r["model"], "flag": c["optin"][0] in ("flag", "flag+env"),
               "env": c["optin"][1] if c["optin"][0] in ("env", "flag+env", "set-module+env") else None, "cmd": cmd}
        if c.get("via", "direct") != "direct":
            req["below"] = [{"root": {"exprs": [], "scriptRecipe": False, "scriptInterpreter": False,
                                      "setUnstable": c["via"] == "fallback-child-unstable", "subs": []}, "fallback": True}]
        reqs.append(req)
    model = drv.pbatch(reqs, chunk=3000)
    stats = {"cases": len(cases), "space": total, "refused": 0, "proceeded": 0, "by_construct": {}, "env_values": {}, "via": {}}
    distinct = set()
    samples = []
    for c, r, m in zip(cases, results, model):
        if "fatal" in m:
            raise C.BuildError("model driver: " + m["fatal"])
        info = r["info"]
        optkind, envval = c["optin"]
        cmdname = c["cmd"][0]
        stats["by_construct"][c["construct"]] = stats["by_construct"].get(c["construct"], 0) + 1
        stats["via"][c.get("via", "direct")] = stats["via"].get(c.get("via", "direct"), 0) + 1
        if optkind == "env":
            stats["env_values"][envval] = stats["env_values"].get(envval, 0) + 1
        # the statement, directly
        glob = optkind in ("flag", "flag+env") or (optkind == "env" and doc_truthy(envval)) or cmdname == "summary"
        module_ok = info["set_sub"] if info["where"] == "sub" else info["set_root"]
        want_refused = info["uses"] and not (glob or module_ok)
        if cmdname == "fmt" and not (glob or info["set_root"]):
            want_refused = True
        stats["refused" if r["refused"] else "proceeded"] += 1
        distinct.add(json.dumps([c["construct"], c["position"], c["optin"], cmdname, c.get("via", "direct"), r["refused"]]))
        replay = {"case": {"construct": c["construct"], "position": c["position"], "optin": list(c["optin"]), "cmd": list(c["cmd"]),
                           "via": c.get("via", "direct")},
                  "files": r["files"], "argv": r["argv"], "env": r["env"], "cwd": r["cwd"],
                  "observed": {"refused": r["refused"], "rc": r["rc"], "spawned": r["spawned"], "stderr": r["stderr"]},
                  "expected_refused": want_refused}
        if r["refused"] and r["spawned"]:
            report.failure("c19-ran-before-refusing", "the justfile was refused but a command had already run", replay)
            continue
        if r["refused"] != want_refused:
            if optkind == "env" and doc_truthy(envval) != m["implTruthy"] and r["refused"] == (info["uses"] or cmdname == "fmt"):
                report.failure("c19-just-unstable-falsy-set", "JUST_UNSTABLE=%r is treated as falsy although the README says any value other than false, 0 or empty enables unstable features" % envval, replay)
            elif want_refused:
                report.failure("c19-not-gated:%s:%s" % (c["construct"], c["position"] if c["construct"] != "none" else cmdname),
                               "unstable %s at %s was not refused (%s, %s)" % (c["construct"], c["position"], optkind, cmdname), replay)
            else:
                report.failure("c19-over-gated:%s:%s" % (c["construct"], cmdname),
                               "refused although %s" % ("only stable features are used" if not info["uses"] else "the opt-in was given"), replay)
            continue
        if not r["refused"] and cmdname == "run" and r["rc"] != 0:
            report.failure("c19-run-failed", "accepted justfile did not run: " + r["stderr"][-200:], replay, no_input=True)
            continue
        if c.get("via", "direct") != "direct" and (m["fallback"] == "refused:1") != r["refused"]:
            report.failure("c19-model-fallback", "Just.Unstable.runFallback and the implementation disagree (statement oracle holds)",
                           dict(replay, correspondence="C19 vs Just.Unstable.runFallback", model=m), no_input=True)
        if m["proceeds"] == r["refused"]:
            report.failure("c19-model", "Lean model and implementation disagree (statement oracle holds)",
                           dict(replay, correspondence="C19 vs Just.Unstable.proceeds", model=m), no_input=True)
        if len(samples) < 3 and r["refused"] and c["position"] == "condside":
            samples.append({"justfile": r["files"]["justfile"], "argv": r["argv"], "refused": True})
    report.coverage.update({
        "evaluations": len(cases),
        "distinct_nontrivial": len(distinct),
        "rule": "constructs {&&, ||, which(), [script], script-interpreter, none} x positions {assignment, parameter default, dependency argument, interpolation, function argument, condition side, branch, assert message, parentheses, path-join operand, imported file, submodule} x opt-ins {none, --unstable, set unstable in root, set unstable [:= true] in the using module, set unstable := false in root / in the using module, JUST_UNSTABLE in 13 values} x 10 subcommands, and for runs x {loaded directly, found through `set fallback` from a subdirectory, the same with `set unstable` in the subdirectory's justfile}; %s; distinct = distinct (construct, position, opt-in, subcommand, outcome)" % ("complete" if tier == "thorough" else "random sample, space size in stats"),
        "samples": samples,
        "exhaustive": tier == "thorough",
        "traces_validated_against_impl": len(cases),
        "stats": stats,
        "build_s": round(bt, 1),
    })
    report.assumptions += [
        "`refused` = stderr names the feature as `currently unstable`; `before anything runs` = empty fake-shell log",
        "clap's environment handling for JUST_UNSTABLE is trusted apart from the falsy set, which is compared",
    ]


def replay(report, path):
    body = json.load(open(path))
    C.build_just()
    c = body["replay"]["case"]
    r = run_case({"construct": c["construct"], "position": c["position"], "optin": tuple(c["optin"]), "cmd": tuple(c["cmd"]),
                  "via": c.get("via", "direct")})
    print(json.dumps({"refused": r["refused"], "rc": r["rc"], "expected_refused": body["replay"]["expected_refused"]}, indent=1))
    report.coverage.update({"obligations": 1, "discharged": 1, "checker_cmd": "replay", "trusted_base": []})
    if r["refused"] != body["replay"]["expected_refused"]:
        report.failure(body["signature"], "replay still fails", body["replay"])
