"""C14 - echoing, quieting and dry-run follow the documented truth table."""
import itertools

from . import common as C
from . import runmodel as R

PREFIXES = ["", "@", "-", "@-", "-@"]


def table_rows():
    rows = []
    for lp, rq, sq, nq, vq, dry, script in itertools.product(
            PREFIXES, [False, True], [False, True], [False, True], ["none", "verbose", "quiet"], [False, True],
            [False, True]):
        rows.append({"lp": lp, "rq": rq, "sq": sq, "nq": nq, "vq": vq, "dry": dry, "script": script})
    return rows


def row_case(row):
    if row["script"]:
        body = [{"quiet": False, "infallible": False, "frags": [R.lit("#!" + C.VSH)]},
                {"quiet": False, "infallible": False, "frags": [R.lit(row["lp"] + "[S0.0] x")]}]
    else:
        body = [{"quiet": "@" in row["lp"], "infallible": "-" in row["lp"], "frags": [R.lit("[T0.0] x")]},
                {"quiet": False, "infallible": False, "frags": [R.lit("[T0.1] y")]}]
    rc = {"params": [], "priors": [], "subs": [], "body": body, "script": row["script"], "confirm": False,
          "quiet": row["rq"], "noQuiet": row["nq"]}
    cfg = R.full_cfg(dryRun=row["dry"], verbose=row["vq"] == "verbose", quiet=row["vq"] == "quiet",
                     setQuiet=row["sq"])
    c = {"prog": {"assigns": [], "recipes": [rc]}, "cfg": cfg, "invs": [[0, []]], "status": [], "outs": [],
         "answers": [], "row": row}
    if row["lp"] in ("@-", "-@") and not row["script"]:
        c["print_override"] = row["lp"]
    return c


def spec_echo(row):
    """The documented rule, written independently of the model (Props/C14.specEchoes)."""
    if row["dry"]:
        return True
    if row["vq"] == "quiet":
        return False
    if row["vq"] == "verbose":
        return True
    if row["sq"] and not row["nq"]:
        return False
    return ("@" in row["lp"]) == row["rq"]


def print_row_justfile(c):
    text = R.print_prog(c["prog"], c["cfg"])
    if "print_override" in c:
        # print the two sigils in the requested order
        text = text.replace("  @-[T0.0]", "  " + c["print_override"] + "[T0.0]")
    return text


def run(report):
    tier = report.tier
    just, bt = C.build_just()
    ok = C.proof_stage(report, "C14", thorough=(tier == "thorough"))
    drv = C.Driver()
    stats = {"table_rows": 0, "table_refused_by_option_parser": 0, "random_programs": 0, "dry_real_pairs": 0,
             "quiet_plain_pairs": 0, "echo_true": 0, "echo_false": 0}
    samples = []
    distinct = set()

    # ---- 1. the full truth table against the binary (exhaustive, every run)
    rows = table_rows()
    cases = [row_case(r) for r in rows]
    reqs = [R.model_request(c["prog"], c["cfg"], c["invs"], [], [], []) for c in cases]
    model = drv.pbatch(reqs, chunk=100)

    def one(c):
        with C.scratch("c14") as d:
            # every command of the row prints to its standard output: `--quiet` must suppress that, for scripts too
            return R.run_impl(d, print_row_justfile(c), R.cmdline(c["cfg"], c["invs"]), [],
                              [("[T0.0]", "OUT-T00\n"), ("[T0.1]", "OUT-T01\n"), ("[S0.0]", "OUT-S00\n")], [])

    impl = C.pmap(one, cases)
    for c, m, r in zip(cases, model, impl):
        row = c["row"]
        stats["table_rows"] += 1
        if row["dry"] and row["vq"] == "quiet":
            # clap refuses --dry-run with --quiet: nothing may run
            stats["table_refused_by_option_parser"] += 1
            if r["exit"] != 2 or r["events"]:
                report.failure("c14-dry-quiet-not-refused", "--dry-run --quiet not refused as a usage error",
                               {"row": row, "justfile": print_row_justfile(c), "argv": R.cmdline(c["cfg"], c["invs"]),
                                "observed": {"exit": r["exit"], "events": r["events"]}})
            continue
        me = R.canon_model_events(m["events"], R.c_loq(c))
        distinct.add(json_key(me))
        out = r.get("stdout") or ""
        if isinstance(out, bytes):
            out = out.decode("utf-8", "replace")
        ran = any(e[0] in ("spawn", "script") for e in r["events"])
        if row["vq"] == "quiet" and "OUT-" in out:
            report.failure("c14-quiet-shows-output:%s" % ("script" if row["script"] else "linewise"),
                           "--quiet did not suppress the output of a command",
                           {"row": row, "justfile": print_row_justfile(c), "argv": R.cmdline(c["cfg"], c["invs"]), "stdout": out})
            continue
        if row["vq"] != "quiet" and ran and "OUT-" not in out:
            report.failure("c14-output-lost", "the output of a command that ran did not reach just's standard output",
                           {"row": row, "justfile": print_row_justfile(c), "argv": R.cmdline(c["cfg"], c["invs"]), "stdout": out,
                            "events": r["events"]}, no_input=True)
            continue
        # direct oracle on the implementation: the documented rule, for linewise recipes
        if not row["script"]:
            echoed = ["echo", "[T0.0] x"] in r["events"]
            stats["echo_true" if echoed else "echo_false"] += 1
            if echoed != spec_echo(row):
                report.failure("c14-table:%s" % key_of(row), "echo decision differs from the documented table: row=%s echoed=%s" % (row, echoed),
                               {"row": row, "justfile": print_row_justfile(c), "argv": R.cmdline(c["cfg"], c["invs"]),
                                "expected_echo": spec_echo(row), "observed": r["events"], "stderr": r["stderr"]})
                continue
            # echoed text is the command the shell receives, echo right before its spawn
            evs = r["events"]
            for i, e in enumerate(evs):
                if e[0] == "echo" and not row["dry"]:
                    if i + 1 >= len(evs) or evs[i + 1] != ["spawn", e[1]]:
                        report.failure("c14-echo-not-command", "echoed text is not the command spawned next",
                                       {"row": row, "justfile": print_row_justfile(c), "observed": evs})
            if row["dry"] and any(e[0] in ("spawn", "script", "bt") for e in evs):
                report.failure("c14-dry-run-executes", "--dry-run executed a command",
                               {"row": row, "justfile": print_row_justfile(c), "observed": evs})
        if row["script"]:
            # documented rule for shebang recipes: the script is printed iff not --quiet and (--dry-run or `@name`)
            echoed = ["echo", row["lp"] + "[S0.0] x"] in r["events"]
            want = row["vq"] != "quiet" and (row["dry"] or row["rq"])
            if echoed != want:
                report.failure("c14-script-table:%s" % key_of(row), "shebang recipe echo differs from the documented rule: row=%s echoed=%s" % (row, echoed),
                               {"row": row, "justfile": print_row_justfile(c), "argv": R.cmdline(c["cfg"], c["invs"]),
                                "expected_echo": want, "observed": r["events"], "stderr": r["stderr"]})
                continue
            if row["dry"] and any(e[0] in ("spawn", "script", "bt") for e in r["events"]):
                report.failure("c14-dry-run-executes", "--dry-run executed a script",
                               {"row": row, "justfile": print_row_justfile(c), "observed": r["events"]})
        if me != r["events"] or m["exit"] != r["exit"]:
            report.failure("c14-model-table:%s" % key_of(row), "model and implementation disagree on a truth-table row (oracle holds)",
                           {"correspondence": "C14 truth table vs Just.Run.runMain", "row": row,
                            "justfile": print_row_justfile(c), "argv": R.cmdline(c["cfg"], c["invs"]),
                            "model": {"events": me, "exit": m["exit"]},
                            "observed": {"events": r["events"], "exit": r["exit"]}}, no_input=True)
        if len(samples) < 3 and row["lp"] == "@-" and row["rq"]:
            samples.append({"row": row, "events": r["events"], "exit": r["exit"]})

    # ---- 2. random recipe graphs: dry-run vs real, --quiet vs plain, model vs implementation
    n = 800 if tier == "quick" else 10000
    cases = []
    for i in range(n):
        rng = C.case_rng(report.seed, i, "c14")
        g = R.Gen(rng, faults=True, confirm=False, quiet_features=True)
        prog = g.program()
        invs = g.invocations(prog)
        # backtick outputs are unique words: a value that collides with another argument would change
        # the run-once memo in the real run only (dry runs show backticks unevaluated), which the
        # statement does not speak about
        outs = [(k, "o%d" % j) for j, k in enumerate(g.bt_keys)]
        status = []
        for ri, rc in enumerate(prog["recipes"]):
            for li, l in enumerate(rc["body"]):
                if rng.random() < 0.12 and not (rc["script"] and li == 0):
                    key = "[S%d." % ri if rc["script"] else "[T%d.%d]" % (ri, li)
                    status.append((key, rng.choice([{"code": {"n": rng.choice([1, 3, 200])}}, {"signal": {"n": 9}}])))
        base = {"prog": prog, "invs": invs, "outs": outs, "answers": []}
        sq = rng.random() < 0.25
        vb = rng.random() < 0.2
        nd = rng.random() < 0.1
        cases.append(dict(base, cfg=R.full_cfg(setQuiet=sq, verbose=vb, noDeps=nd), status=status, tag="plain"))
        cases.append(dict(base, cfg=R.full_cfg(setQuiet=sq, verbose=vb, noDeps=nd, quiet=True), status=status, tag="quiet"))
        cases.append(dict(base, cfg=R.full_cfg(setQuiet=sq, verbose=vb, noDeps=nd), status=[], tag="real-ok"))
        cases.append(dict(base, cfg=R.full_cfg(setQuiet=sq, verbose=vb, noDeps=nd, dryRun=True), status=status, tag="dry"))
    results = R.run_cases(cases, drv)
    for i in range(0, len(cases), 4):
        stats["random_programs"] += 1
        group = list(zip(cases[i:i + 4], results[i:i + 4]))
        for c, (m, r) in group:
            distinct.add(json_key(r["events"]))
            if m["events"] != r["events"] or m["exit"] != r["exit"]:
                report.failure("c14-model-random", "model and implementation disagree on a random program",
                               {"correspondence": "C14 random programs vs Just.Run.runMain", "case": R.describe_case(c),
                                "model": m, "observed": {"events": r["events"], "exit": r["exit"], "stderr": r["stderr"]}},
                               no_input=True)
        (cp, (_, rp)), (cq, (_, rq)), (co, (_, ro)), (cd, (_, rd)) = group
        execs = lambda evs: [e for e in evs if e[0] in ("spawn", "script", "bt")]
        # --quiet never changes what is executed or the exit status
        stats["quiet_plain_pairs"] += 1
        if execs(rp["events"]) != execs(rq["events"]) or rp["exit"] != rq["exit"]:
            report.failure("c14-quiet-changes-execution", "--quiet changed what is executed or the exit status",
                           {"case": R.describe_case(cp), "plain": {"events": rp["events"], "exit": rp["exit"]},
                            "quiet": {"events": rq["events"], "exit": rq["exit"]}})
        if any(e[0] == "echo" for e in rq["events"]):
            report.failure("c14-quiet-echoes", "--quiet echoed a command", {"case": R.describe_case(cq), "observed": rq["events"]})
        # dry run prints what a successful real run executes, in order, and executes nothing
        stats["dry_real_pairs"] += 1
        if execs(rd["events"]):
            report.failure("c14-dry-run-executes", "--dry-run executed a command",
                           {"case": R.describe_case(cd), "observed": rd["events"]})
        dry_cmds = [marker(e[1]) for e in rd["events"] if e[0] == "echo" and marker(e[1]) and marker(e[1])[1] == "T"]
        real_cmds = [marker(e[1]) for e in ro["events"] if e[0] == "spawn" and marker(e[1])]
        if ro["exit"] == 0 and rd["exit"] == 0 and dry_cmds != real_cmds:
            report.failure("c14-dry-real-mismatch", "dry-run printed a different command sequence than the real run executed",
                           {"case": R.describe_case(cd), "dry": dry_cmds, "real": real_cmds})
        if len(samples) < 6:
            samples.append({"justfile": R.print_prog(cd["prog"], cd["cfg"]), "argv": R.cmdline(cd["cfg"], cd["invs"]),
                            "dry_events": rd["events"], "real_events": ro["events"]})

    # ---- 3. under --dry-run NO backtick runs, at whatever position of whatever expression it stands: a backtick at
    # every child position of every expression constructor, in every place an expression can be written
    from .exprs import And, Assert, Bt, Call, Concat, Cond, Group, JoinL, JoinR, Or, Str, pr
    import subprocess
    import os
    B = lambda: Bt("BX")
    S = lambda v="k": Str(v)
    shapes = {"bare": B(), "group": Group(B()), "concat-l": Concat(B(), S()), "concat-r": Concat(S(), B()), "join-l": JoinL(B(), S()),
              "join-r": JoinL(S(), B()), "join-unary": JoinR(B()), "and-l": And(B(), S()), "and-r": And(S(), B()), "or-l": Or(B(), S()),
              "or-r": Or(Str(""), B()), "call": Call("uppercase", B()), "call-2": Call("replace", S(), B(), S()), "call-variadic": Call("join", S(), S(), B())}
    for op in ("eq", "ne", "match", "nomatch"):
        shapes["cond-lhs-" + op] = Cond(B(), op, S(), S("t"), S("e"))
        shapes["cond-rhs-" + op] = Cond(S(), op, B(), S("t"), S("e"))
        shapes["cond-lhs-group-" + op] = Cond(Group(B()), op, S(), S("t"), S("e"))
        shapes["assert-lhs-" + op] = Assert(B(), op, B(), S("m"))
    shapes.update({"cond-then": Cond(S(), "eq", S(), B(), S("e")), "cond-else": Cond(S(), "ne", S(), S("t"), B()),
                   "cond-nested": Cond(S(), "eq", S(), Cond(B(), "eq", S(), S("t"), S("e")), S("e")),
                   "assert-msg": Assert(S(), "ne", S(), B()), "else-if": Cond(S(), "ne", S(), S("t"), Cond(B(), "eq", S(), S("t2"), S("e2")))})
    places = {"assignment": "set unstable\nv := %s\n\nr:\n  [T] {{v}}\n",
              "interpolation": "set unstable\nr:\n  [T] {{ %s }}\n",
              "default": "set unstable\nr p=(%s):\n  [T] {{p}}\n",
              "dependency-argument": "set unstable\nd p:\n  [T] {{p}}\n\nr: (d (%s))\n  [T] x\n",
              "script-interpolation": "set unstable\nr:\n  #!@VSH@\n  [T] {{ %s }}\n",
              "module-assignment": None}

    def dry_one(arg):
        shape, place = arg
        text = pr(shapes[shape])
        with C.scratch("c14d") as d:
            shell = 'set shell := ["%s", "-c"]\n' % C.VSH
            if place == "module-assignment":
                open(os.path.join(d, "justfile"), "w").write(shell + "mod m\n")
                open(os.path.join(d, "m.just"), "w").write(shell + (places["assignment"] % text))
                argv = ["--dry-run", "m::r"]
                jf = shell + "mod m\n# m.just:\n" + (places["assignment"] % text)
            else:
                jf = shell + (places[place] % text).replace("@VSH@", C.VSH)
                open(os.path.join(d, "justfile"), "w").write(jf)
                argv = ["--dry-run", "r"]
            logp = os.path.join(d, "vsh.log")
            env = dict(C.BASE_ENV)
            env.update({"HOME": d, "TMPDIR": d, "VSH_LOG": logp})
            p = subprocess.run([C.JUST] + argv, cwd=d, env=env, stdin=subprocess.DEVNULL, stdout=subprocess.PIPE, stderr=subprocess.PIPE, timeout=30)
            ran = [e["argv"][2] if len(e["argv"]) > 2 else e["argv"] for e in C.read_vsh_log(logp)]
            return {"shape": shape, "place": place, "justfile": jf, "argv": argv, "rc": p.returncode, "ran": ran, "stderr": p.stderr.decode("utf-8", "replace")[-300:]}

    # what the dry run SHOWS for an assignment is what Just.Eval computes with dryRun (the backtick as written)
    mdry = drv.pbatch([{"op": "evaluate", "assigns": [["v", shapes[sh]]], "overrides": [], "backticks": [], "env": [], "ownFirst": True, "dryRun": True}
                       for sh in shapes])
    mdry = dict(zip(shapes, mdry))

    dcases = [(sh, pl) for sh in shapes for pl in places]
    for r in C.pmap(dry_one, dcases):
        stats["dry_backtick_positions"] = stats.get("dry_backtick_positions", 0) + 1
        if r["ran"]:
            report.failure("c14-dry-run-executes:%s" % r["shape"].split("-")[0], "--dry-run executed %s (a backtick as %s in a %s)" % (r["ran"], r["shape"], r["place"]),
                           {"justfile": r["justfile"], "argv": r["argv"], "observed": r["ran"]})
            break
        if r["place"] == "assignment":
            m = mdry[r["shape"]]
            shown = [l[4:] for l in r["stderr"].split("\n") if l.startswith("[T] ")]
            mv = dict(m["values"]).get("v") if "values" in m else None
            if m.get("backticks") or (r["rc"] == 0) != ("values" in m) or (r["rc"] == 0 and shown != [mv]):
                report.failure("c14-model-dry-evaluation", "--dry-run shows %r for `v := %s`, Just.Eval with dryRun gives %r" % (shown, pr(shapes[r["shape"]]), m),
                               {"correspondence": "C14 dry-run values vs Just.Eval (dryRun)", "justfile": r["justfile"], "argv": r["argv"], "model": m, "impl": shown}, no_input=True)
                break
            stats["dry_values_vs_model"] = stats.get("dry_values_vs_model", 0) + 1
        if r["rc"] != 0 and "ssert" not in r["stderr"]:
            report.failure("c14-dry-run-failed", "--dry-run of a valid justfile failed: " + r["stderr"][-150:],
                           {"justfile": r["justfile"], "argv": r["argv"], "stderr": r["stderr"]}, no_input=True)
            break

    # ---- 4. continued lines: the sigils are those of the FIRST physical line; a continuation that begins with `-` or `@`
    # is text.  The echoed text is the command the shell receives, and a failing command stops the run
    conts = []
    for first in ("", "@", "-", "@-"):
        for start in ("-b", "@b", "@-b", "-@b", "--flag", "b"):
            for fail in (False, True):
                conts.append((first, start, fail))

    def cont_one(arg):
        first, start, fail = arg
        jf = 'set shell := ["%s", "-c"]\nr:\n  %s[T0.0] a \\\n  %s\n  [T0.1] after\n' % (C.VSH, first, start)
        with C.scratch("c14c") as d:
            r = R.run_impl(d, jf, ["r"], [("[T0.0]", {"code": {"n": 3}})] if fail else [], [], [])
        return {"justfile": jf, "events": r["events"], "exit": r["exit"], "stderr": r["stderr"][-300:]}

    for (first, start, fail), r in zip(conts, C.pmap(cont_one, conts)):
        stats["continued_line_cases"] = stats.get("continued_line_cases", 0) + 1
        cmd = "[T0.0] a " + start
        stops = fail and "-" not in first
        want = ([] if "@" in first else [["echo", cmd]]) + [["spawn", cmd]] + ([] if stops else [["echo", "[T0.1] after"], ["spawn", "[T0.1] after"]])
        got = [list(e) for e in r["events"] if e[0] in ("echo", "spawn")]
        if got != want or r["exit"] != (3 if stops else 0):
            report.failure("c14-continued-line", "a continued line whose continuation begins with %r (first line prefix %r, command %s): events %s exit %s, documented %s exit %s"
                           % (start, first, "fails" if fail else "succeeds", got, r["exit"], want, 3 if stops else 0),
                           {"justfile": r["justfile"], "argv": ["r"], "plan": "[T0.0] exits 3" if fail else "", "observed": {"events": got, "exit": r["exit"]}, "expected": {"events": want, "exit": 3 if stops else 0}})
            break

    report.coverage.update({
        "evaluations": stats["table_rows"] + 4 * stats["random_programs"] + stats.get("dry_backtick_positions", 0),
        "distinct_nontrivial": len(distinct),
        "rule": "480-row echo truth table (exhaustive) + random recipe graphs run 4 ways (plain/--quiet with faults, real all-succeed, --dry-run) + a backtick at every child position of every expression constructor x {assignment, module assignment, interpolation, script interpolation, parameter default, dependency argument} under --dry-run (nothing may run) + continued lines whose continuation begins with a sigil character (4 first-line prefixes x 6 continuations x command succeeds / fails); distinct = distinct observed event traces",
        "samples": samples,
        "exhaustive": True,
        "traces_validated_against_impl": stats["table_rows"] + 4 * stats["random_programs"],
        "stats": stats,
        "build_s": round(bt, 1),
    })
    report.assumptions += [
        "child processes are observed through the logging fake shell vsh (set shell / shebang)",
        "the 80 rows with both --quiet and --dry-run are refused by the option parser (checked)",
        "shell() is not generated: it does execute under --dry-run and the statement names recipe commands and backticks only",
    ]


def marker(text):
    import re
    m = re.match(r"\[([TSB]\d+\.\d+|B\d+)\]", text)
    return m.group(0) if m else None


def key_of(row):
    return "%s|%d%d%d|%s|%d%d" % (row["lp"], row["rq"], row["sq"], row["nq"], row["vq"], row["dry"], row["script"])


def json_key(x):
    import json
    return json.dumps(x, sort_keys=True)


def replay(report, path):
    import json
    body = json.load(open(path))
    C.build_just()
    rp = body["replay"]
    if "case" in rp:
        c = rp["case"]
        with C.scratch("replay") as d:
            r = R.run_impl(d, c["justfile"], c["argv"], [tuple(x) for x in c["status"]], [tuple(x) for x in c["outs"]], c["answers"])
        print(json.dumps({"events": r["events"], "exit": r["exit"]}, indent=1))
    elif "justfile" in rp:
        with C.scratch("replay") as d:
            r = R.run_impl(d, rp["justfile"], rp.get("argv", []), [], [], [])
        print(json.dumps({"events": r["events"], "exit": r["exit"]}, indent=1))
    report.coverage.update({"obligations": 1, "discharged": 1, "checker_cmd": "replay", "trusted_base": []})
