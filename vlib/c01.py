"""C01 - dependencies run first; each recipe invocation runs once, in order."""
import itertools
import json

from . import common as C
from . import runmodel as R


def gen_cases(report, n):
    cases = []
    for i in range(n):
        rng = C.case_rng(report.seed, i, "c01")
        g = R.Gen(rng, max_recipes=rng.choice([2, 3, 4, 6, 8]), faults=False, confirm=False, scripts=True, bts=True)
        prog = g.program()
        invs = g.invocations(prog)
        outs = [(k, rng.choice(R.WORDS)) for k in g.bt_keys]
        # one run in six with --no-deps: only what the command line names runs, still once per (recipe, arguments)
        cfg = R.full_cfg(verbose=rng.random() < 0.5, noDeps=rng.random() < 0.17)
        if rng.random() < 0.25:
            cfg["aliasMask"] = rng.randint(1, 255)      # some invocations name the recipe through an alias
        cases.append({"prog": prog, "cfg": cfg, "invs": invs, "status": [], "outs": outs, "answers": []})
    return cases


def small_graphs(limit, rng):
    """All graphs with <= 3 recipes over a fixed edge / argument alphabet (sampled down to `limit`)."""
    argalpha = lambda np: [R.lit("a"), R.lit("b")] + ([R.param(0)] if np else [])
    out = []
    for n in (2, 3):
        for nparams in itertools.product([0, 1], repeat=n):
            # dependency choices per recipe: lists (length <= 2) of (target, arg) for priors, <= 1 for subs
            per = []
            for i in range(n):
                targets = list(range(i + 1, n))
                calls = []
                for t in targets:
                    if nparams[t]:
                        calls += [{"target": t, "args": [a]} for a in argalpha(nparams[i])]
                    else:
                        calls.append({"target": t, "args": []})
                pri = [[]] + [[c] for c in calls] + [[c1, c2] for c1 in calls for c2 in calls]
                sub = [[]] + [[c] for c in calls]
                per.append([(p, s) for p in pri for s in sub])
            total = 1
            for x in per:
                total *= len(x)
            for combo in itertools.product(*per):
                recipes = []
                for i, (p, s) in enumerate(combo):
                    recipes.append({"params": [None] * nparams[i], "priors": p, "subs": s,
                                    "body": [{"quiet": False, "infallible": False,
                                              "frags": [R.lit("[T%d.0]" % i)] + ([R.lit(" "), R.param(0)] if nparams[i] else [])}],
                                    "script": False, "confirm": False, "quiet": False, "noQuiet": False})
                out.append(recipes)
    rng.shuffle(out)
    total = len(out)
    return out[:limit], total


MODS = ["", "alpha", "beta", "util", "alpha::util", "beta::util", "alpha::beta"]


def module_files():
    """Seven modules whose names repeat at different places of the tree (`util`, `alpha::util`, `beta::util`, `beta`,
    `alpha::beta`), each with the same two recipes: `build p` and `clean p: (build p)`."""
    shell = 'set shell := ["%s", "-c"]\n' % C.VSH
    body = lambda m: "build p:\n  [M %s|build|{{p}}]\n\nclean p: (build p)\n  [M %s|clean|{{p}}]\n" % (m, m)
    return {"justfile": shell + "mod alpha 'alpha.just'\nmod beta 'beta.just'\nmod util 'root_util.just'\n\n" + body(""),
            "alpha.just": shell + "mod util 'alpha_util.just'\nmod beta 'alpha_beta.just'\n\n" + body("alpha"),
            "beta.just": shell + "mod util 'beta_util.just'\n\n" + body("beta"),
            "root_util.just": shell + body("util"), "alpha_util.just": shell + body("alpha::util"),
            "beta_util.just": shell + body("beta::util"), "alpha_beta.just": shell + body("alpha::beta")}


def module_spec(invs):
    """the statement: once per (recipe - which module's recipe it is -, argument list); the dependency first"""
    ran, out = set(), []

    def go(m, rcp, a):
        if (m, rcp, a) in ran:
            return
        if rcp == "clean":
            go(m, "build", a)
        out.append([m, rcp, a])
        ran.add((m, rcp, a))
    for m, rcp, a in invs:
        go(m, rcp, a)
    return out


def run_modules(invs):
    import os
    import subprocess
    with C.scratch("c01m") as d:
        for name, text in module_files().items():
            open(os.path.join(d, name), "w").write(text)
        logp = os.path.join(d, "vsh.log")
        env = dict(C.BASE_ENV)
        env.update({"HOME": d, "TMPDIR": d, "VSH_LOG": logp})
        argv = [w for m, rcp, a in invs for w in ((m + "::" if m else "") + rcp, a)]
        p = subprocess.run([C.JUST] + argv, cwd=d, env=env, stdin=subprocess.DEVNULL, stdout=subprocess.PIPE, stderr=subprocess.PIPE, timeout=30)
        got = [e["argv"][2][3:-1].split("|") for e in C.read_vsh_log(logp) if len(e["argv"]) > 2 and e["argv"][2].startswith("[M ")]
        return {"argv": argv, "rc": p.returncode, "ran": got, "stderr": p.stderr.decode("utf-8", "replace")[-300:]}


def run(report):
    tier = report.tier
    just, bt = C.build_just()
    C.proof_stage(report, "C01", thorough=(tier == "thorough"))
    drv = C.Driver()
    n = 1500 if tier == "quick" else 60000
    cases = gen_cases(report, n)
    rng = C.case_rng(report.seed, 0, "c01-small")
    graphs, total_small = small_graphs(400 if tier == "quick" else 40000, rng)
    for recipes in graphs:
        prog = {"assigns": [], "recipes": recipes}
        np0 = len(recipes[0]["params"])
        # two command lines per graph: the root twice with equal / different arguments
        a1 = ["a"] * np0
        a2 = ["b"] * np0
        last = len(recipes) - 1
        invs = [[0, a1], [0, a2], [last, ["a"] * len(recipes[last]["params"])], [0, a1]]
        cases.append({"prog": prog, "cfg": R.full_cfg(verbose=True, noDeps=(len(cases) % 7 == 0)), "invs": invs, "status": [], "outs": [],
                      "answers": [], "small": True})
    results = R.run_cases(cases, drv)
    distinct = set()
    stats = {"random_programs": n, "small_graphs": len(graphs), "small_graph_space": total_small,
             "recipes_hist": {}, "with_subsequents": 0, "with_repeated_invocation": 0, "memo_hits": 0, "no_deps_runs": 0}
    samples = []
    for c, (m, r) in zip(cases, results):
        nrec = len(c["prog"]["recipes"])
        stats["recipes_hist"][nrec] = stats["recipes_hist"].get(nrec, 0) + 1
        if any(rc["subs"] for rc in c["prog"]["recipes"]):
            stats["with_subsequents"] += 1
        keys = [json.dumps(i) for i in c["invs"]]
        if len(set(keys)) < len(keys):
            stats["with_repeated_invocation"] += 1
            stats["no_deps_runs"] += bool(c["cfg"].get("noDeps"))
        spec = R.spec_run(c["prog"], c["cfg"], c["invs"], c["outs"])
        distinct.add(json.dumps(r["events"]))
        if r["events"] != spec or r["exit"] != 0:
            def still(x):
                with C.scratch("shr") as d:
                    rr = R.run_impl(d, R.print_prog(x["prog"], x["cfg"]), R.cmdline(x["cfg"], x["invs"]), [], x["outs"], [])
                return rr["events"] != R.spec_run(x["prog"], x["cfg"], x["invs"], x["outs"]) or rr["exit"] != 0
            small = R.shrink_case(c, still, budget=45)
            with C.scratch("shr") as d:
                rr = R.run_impl(d, R.print_prog(small["prog"], small["cfg"]), R.cmdline(small["cfg"], small["invs"]), [], small["outs"], [])
            report.failure("c01-order", "run order differs from the documented order (priors first, run once per argument list, subsequents after, left to right)",
                           {"case": R.describe_case(small), "expected": R.spec_run(small["prog"], small["cfg"], small["invs"], small["outs"]),
                            "observed": {"events": rr["events"], "exit": rr["exit"], "stderr": rr["stderr"][-2000:]}})
            continue
        if m["events"] != r["events"] or m["exit"] != r["exit"]:
            report.failure("c01-model", "Lean model and implementation disagree although the implementation follows the reference order",
                           {"correspondence": "C01 random/small graphs vs Just.Run.runMain", "case": R.describe_case(c),
                            "model": {"events": m["events"], "exit": m["exit"]},
                            "observed": {"events": r["events"], "exit": r["exit"]}}, no_input=True)
        if len(samples) < 3 and len(r["events"]) > 6:
            samples.append({"justfile": R.print_prog(c["prog"], c["cfg"]), "argv": R.cmdline(c["cfg"], c["invs"]),
                            "events": r["events"]})
    # recipes of the same name in modules whose names repeat across the tree: every ordered pair with the same argument
    # and random longer command lines - each is its own recipe, so each runs once per argument list
    mrng = C.case_rng(report.seed, 0, "c01-modules")
    minvs = [[(m1, r1, "x"), (m2, r2, "x")] for m1 in MODS for r1 in ("build", "clean") for m2 in MODS for r2 in ("build", "clean")]
    minvs += [[(mrng.choice(MODS), mrng.choice(["build", "clean"]), mrng.choice(["x", "x", "y"])) for _ in range(mrng.randint(3, 6))]
              for _ in range(150 if tier == "quick" else 3000)]
    for invs, r in zip(minvs, C.pmap(run_modules, minvs)):
        want = module_spec(invs)
        if r["rc"] != 0 or r["ran"] != want:
            report.failure("c01-modules", "recipes of the same name in different modules: ran %s, documented %s" % (r["ran"], want),
                           {"files": module_files(), "argv": r["argv"], "observed": {"ran": r["ran"], "rc": r["rc"], "stderr": r["stderr"]}, "expected": want})
            break
    stats["module_command_lines"] = len(minvs)
    report.coverage.update({
        "evaluations": len(cases) + len(minvs),
        "distinct_nontrivial": len(distinct),
        "rule": "random acyclic recipe graphs (1-8 recipes, parameters with defaults, diamonds, subsequents, dependency arguments over caller parameters / literals / concatenation / backticks, words with spaces and the empty word) x command lines with repeated invocations, one run in six with --no-deps, one in four with some recipes named through an alias; plus graphs with <=3 recipes over a fixed edge/argument alphabet (sampled from the full space, size in stats); plus seven modules whose names repeat across the tree (util, alpha::util, beta::util, beta, alpha::beta) with the same two recipes: every ordered pair of invocations and random longer command lines. distinct = distinct observed traces",
        "samples": samples,
        "traces_validated_against_impl": len(cases),
        "stats": stats,
        "build_s": round(bt, 1),
    })
    report.assumptions += [
        "bodies are observed through the logging fake shell (one spawn per line; `===> Running recipe` under --verbose)",
        "sequentiality of child processes is the OS's wait(); observed, not proved",
        "Acyclic hypothesis of the theorems is discharged for accepted programs by the resolver (C03)",
    ]


def replay(report, path):
    body = json.load(open(path))
    C.build_just()
    c = body["replay"]["case"]
    with C.scratch("replay") as d:
        r = R.run_impl(d, c["justfile"], c["argv"], [tuple(x) for x in c["status"]], [tuple(x) for x in c["outs"]], c["answers"])
    print(json.dumps({"events": r["events"], "exit": r["exit"], "expected": body["replay"].get("expected")}, indent=1))
    report.coverage.update({"obligations": 1, "discharged": 1, "checker_cmd": "replay", "trusted_base": []})
    if body["replay"].get("expected") is not None and r["events"] != body["replay"]["expected"]:
        report.failure(body["signature"], "replay still fails", body["replay"])
