"""Shared infrastructure for the /verif checks (python3 stdlib only)."""
import concurrent.futures as cf
import contextlib
import fcntl
import hashlib
import json
import os
import random
import re
import shutil
import subprocess
import sys
import time

ROOT = os.path.dirname(os.path.dirname(os.path.abspath(__file__)))
REPO = os.environ.get("VERIF_REPO", "/repo")
CACHE = os.path.join(ROOT, ".cache")
LEAN = os.path.join(ROOT, "lean")
VSH = os.path.join(CACHE, "bin", "vsh")
JUST = os.path.join(CACHE, "target-just", "debug", "just")
JV = os.path.join(CACHE, "target-jv", "debug", "jv")
DRIVER = os.path.join(LEAN, ".lake", "build", "bin", "driver")
SHM = "/dev/shm" if os.path.isdir("/dev/shm") else os.path.join(CACHE, "scratch")
NCPU = os.cpu_count() or 4
RUSTFLAGS_CFG = 'build.rustflags=["--cfg","just_verif"]'

ALLOWED_AXIOMS = {"propext", "Classical.choice", "Quot.sound"}
FORBIDDEN = re.compile(
    r"\bsorry\b|\badmit\b|^\s*axiom\s|native_decide|bv_decide|implemented_by|\bunsafe\s|maxHeartbeats\s+0"
)


def log(*a):
    print(*a, file=sys.stderr, flush=True)


def strip_noise(text):
    """Drop the harmless conda warning line some shells print first."""
    return "\n".join(l for l in text.split("\n") if "conda.cli.condarc" not in l)


@contextlib.contextmanager
def flock(name):
    os.makedirs(CACHE, exist_ok=True)
    path = os.path.join(CACHE, name + ".lock")
    with open(path, "w") as f:
        fcntl.flock(f, fcntl.LOCK_EX)
        try:
            yield
        finally:
            fcntl.flock(f, fcntl.LOCK_UN)


class BuildError(Exception):
    pass


def _cargo_env():
    env = dict(os.environ)
    env["CARGO_NET_OFFLINE"] = "true"
    env.pop("RUSTFLAGS", None)
    return env


def build_vsh():
    with flock("vsh"):
        os.makedirs(os.path.dirname(VSH), exist_ok=True)
        src = os.path.join(ROOT, "vsh", "vsh.c")
        if not os.path.exists(VSH) or os.path.getmtime(VSH) < os.path.getmtime(src):
            subprocess.run(["gcc", "-O2", "-o", VSH, src], check=True)
    return VSH


def build_just():
    """Rebuild the just binary from /repo's working tree with the hooks on."""
    t0 = time.time()
    with flock("cargo-just"):
        p = subprocess.run(
            ["cargo", "build", "--offline", "--bin", "just", "--target-dir", os.path.join(CACHE, "target-just"),
             "--config", RUSTFLAGS_CFG],
            cwd=REPO, env=_cargo_env(), stdout=subprocess.PIPE, stderr=subprocess.STDOUT, text=True)
    if p.returncode != 0:
        raise BuildError("cargo build of /repo failed:\n" + p.stdout[-4000:])
    return JUST, time.time() - t0


def build_jv():
    """Rebuild the in-process harness `jv` (path dependency on /repo, hooks on)."""
    t0 = time.time()
    hdir = os.path.join(ROOT, "harness")
    lock = os.path.join(hdir, "Cargo.lock")
    with flock("cargo-jv"):
        if not os.path.exists(lock):
            shutil.copy(os.path.join(REPO, "Cargo.lock"), lock)
        p = subprocess.run(
            ["cargo", "build", "--offline", "--target-dir", os.path.join(CACHE, "target-jv"),
             "--config", RUSTFLAGS_CFG],
            cwd=hdir, env=_cargo_env(), stdout=subprocess.PIPE, stderr=subprocess.STDOUT, text=True)
    if p.returncode != 0:
        raise BuildError("cargo build of harness failed:\n" + p.stdout[-4000:])
    return JV, time.time() - t0


def lake_build(targets):
    """lake build the given targets; returns (ok, output)."""
    with flock("lake"):
        p = subprocess.run(["lake", "build"] + list(targets), cwd=LEAN,
                           stdout=subprocess.PIPE, stderr=subprocess.STDOUT, text=True)
    return p.returncode == 0, strip_noise(p.stdout)


def lean_audit(prop):
    """Run `#print axioms` on every property theorem; return dict theorem -> axioms list.

    Also greps the Lean sources for forbidden constructs."""
    path = os.path.join("Just", "Audit", prop + ".lean")
    p = subprocess.run(["lake", "env", "lean", path], cwd=LEAN,
                       stdout=subprocess.PIPE, stderr=subprocess.STDOUT, text=True)
    out = strip_noise(p.stdout)
    theorems = {}
    # "'Just.foo' depends on axioms: [propext, Quot.sound]" / "'Just.foo' does not depend on any axioms"
    text = re.sub(r"\s+", " ", out)
    for m in re.finditer(r"'([^']+)' depends on axioms: \[([^\]]*)\]", text):
        theorems[m.group(1)] = [a.strip() for a in m.group(2).split(",") if a.strip()]
    for m in re.finditer(r"'([^']+)' does not depend on any axioms", text):
        theorems[m.group(1)] = []
    bad = []
    for root, _, files in os.walk(os.path.join(LEAN, "Just")):
        for fn in files:
            if not fn.endswith(".lean"):
                continue
            full = os.path.join(root, fn)
            in_block = 0
            for i, line in enumerate(open(full, encoding="utf-8"), 1):
                code = line
                # strip block and line comments (approximation good enough for the grep)
                if in_block:
                    if "-/" in code:
                        code = code.split("-/", 1)[1]
                        in_block = 0
                    else:
                        continue
                if "/-" in code:
                    before, rest = code.split("/-", 1)
                    if "-/" in rest:
                        code = before + rest.split("-/", 1)[1]
                    else:
                        code = before
                        in_block = 1
                code = code.split("--", 1)[0]
                if FORBIDDEN.search(code):
                    bad.append("%s:%d: %s" % (os.path.relpath(full, LEAN), i, line.strip()))
    return p.returncode == 0, theorems, bad, out


class Driver:
    """Line protocol client for the Lean model driver (batch mode)."""

    def __init__(self):
        if not os.path.exists(DRIVER):
            raise BuildError("lean driver not built: " + DRIVER)

    def batch(self, requests):
        data = "\n".join(json.dumps(r, ensure_ascii=False) for r in requests) + "\n"
        p = subprocess.run([DRIVER], input=data.encode("utf-8"), stdout=subprocess.PIPE, stderr=subprocess.PIPE)
        if p.returncode != 0:
            raise BuildError("lean driver failed: rc=%d %s" % (p.returncode, p.stderr.decode("utf-8", "replace")[-2000:]))
        lines = p.stdout.decode("utf-8").split("\n")
        if lines and lines[-1] == "":
            lines.pop()
        if len(lines) != len(requests):
            raise BuildError("lean driver answered %d lines for %d requests" % (len(lines), len(requests)))
        out = []
        for l in lines:
            out.append(json.loads(l))
        return out

    def pbatch(self, requests, chunk=2000):
        """batch in parallel chunks."""
        chunks = [requests[i:i + chunk] for i in range(0, len(requests), chunk)]
        if len(chunks) <= 1:
            return self.batch(requests) if requests else []
        with cf.ThreadPoolExecutor(NCPU) as ex:
            res = list(ex.map(self.batch, chunks))
        return [x for c in res for x in c]


class Jv:
    """Line protocol client for the in-process Rust harness `jv` (batch mode).

    A request that kills the process (stack overflow, abort) is answered with {"abort": rc, ...} and the
    remaining requests are sent to a fresh process."""

    def __init__(self, timeout=120):
        if not os.path.exists(JV):
            raise BuildError("harness jv not built: " + JV)
        self.timeout = timeout

    def batch(self, requests):
        out = []
        pending = list(requests)
        while pending:
            data = "\n".join(json.dumps(r, ensure_ascii=False) for r in pending) + "\n"
            try:
                p = subprocess.run([JV], input=data.encode("utf-8"), stdout=subprocess.PIPE, stderr=subprocess.PIPE,
                                   timeout=self.timeout)
                rc, stdout, stderr = p.returncode, p.stdout, p.stderr
            except subprocess.TimeoutExpired as ex:
                rc, stdout, stderr = "timeout", ex.stdout or b"", ex.stderr or b""
            lines = stdout.decode("utf-8", "replace").split("\n")
            if lines and lines[-1] == "":
                lines.pop()
            good = []
            for l in lines[:len(pending)]:
                try:
                    good.append(json.loads(l))
                except ValueError:
                    break
            out.extend(good)
            if len(good) == len(pending):
                break
            # the request after the last complete answer killed (or hung) the process
            out.append({"abort": rc, "stderr": stderr.decode("utf-8", "replace")[-300:]})
            pending = pending[len(good) + 1:]
        return out

    def pbatch(self, requests, chunk=2000):
        chunks = [requests[i:i + chunk] for i in range(0, len(requests), chunk)]
        if len(chunks) <= 1:
            return self.batch(requests) if requests else []
        with cf.ThreadPoolExecutor(NCPU) as ex:
            res = list(ex.map(self.batch, chunks))
        return [x for c in res for x in c]


BASE_ENV = {"PATH": "/usr/bin:/bin", "LANG": "C.UTF-8"}


def run_just(argv, cwd, env=None, stdin=b"", timeout=20, just=None):
    """Run the just binary with a scrubbed environment. Returns (rc, stdout bytes, stderr bytes).
    rc is None on timeout."""
    e = dict(BASE_ENV)
    e["HOME"] = cwd
    e["TMPDIR"] = os.environ.get("VERIF_TMPDIR_OVERRIDE", cwd)
    if env:
        e.update(env)
    try:
        p = subprocess.run([just or JUST] + list(argv), cwd=cwd, env=e, input=stdin,
                           stdout=subprocess.PIPE, stderr=subprocess.PIPE, timeout=timeout)
        return p.returncode, p.stdout, p.stderr
    except subprocess.TimeoutExpired as ex:
        return None, ex.stdout or b"", ex.stderr or b""


def read_vsh_log(path):
    out = []
    if not os.path.exists(path):
        return out
    for l in open(path, "rb"):
        l = l.strip()
        if not l:
            continue
        d = json.loads(l)
        out.append({
            "pid": d["pid"],
            "argv": [bytes.fromhex(a).decode("utf-8", "surrogateescape") for a in d["argv"]],
            "cwd": bytes.fromhex(d["cwd"]).decode("utf-8", "surrogateescape"),
            "env": {bytes.fromhex(k).decode("utf-8", "surrogateescape"): bytes.fromhex(v).decode("utf-8", "surrogateescape")
                    for k, v in d["env"].items()},
            "script": None if d["script"] is None else bytes.fromhex(d["script"]).decode("utf-8", "surrogateescape"),
            "out_null": d.get("out_null", 0), "err_null": d.get("err_null", 0),
        })
    return out


def hexs(s):
    return s.encode("utf-8").hex()


@contextlib.contextmanager
def scratch(tag="v"):
    base = os.path.join(SHM, "verif-%s-%d-%08x" % (tag, os.getpid(), random.getrandbits(32)))
    os.makedirs(base)
    try:
        yield base
    finally:
        shutil.rmtree(base, ignore_errors=True)


def pmap(fn, items, workers=None):
    with cf.ThreadPoolExecutor(workers or NCPU) as ex:
        return list(ex.map(fn, items))


def case_rng(seed, index, salt=""):
    h = hashlib.sha256(("%d:%d:%s" % (seed, index, salt)).encode()).digest()
    return random.Random(int.from_bytes(h[:8], "big"))


# ---------------------------------------------------------------------------------------------
# findings / violations / evidence


def load_findings():
    path = os.path.join(ROOT, "known_findings.json")
    if not os.path.exists(path):
        return {"findings": [], "fixed": []}
    return json.load(open(path))


class Report:
    """Collects the outcome of one check run and writes evidence / replay files."""

    def __init__(self, prop, tier, seed):
        self.prop = prop
        self.tier = tier
        self.seed = seed
        self.t0 = time.time()
        self.violations = []
        self.known_hits = {}
        self.coverage = {}
        self.assumptions = []
        self.level = "proof"
        known = load_findings()
        self.known = [f for f in known.get("findings", []) if f["property"] == prop]

    def run_probes(self):
        """Every recorded finding that carries a `probe` (files, argv, env and what shows the defect) is run against the binary
        of this run: if the defect is still there it is reported under its signature - a KNOWN-FINDING line - and if it is
        gone nothing is printed.  The probe is the finding's own input, nothing is added to the file at run time."""
        import re as _re
        n = 0
        for f in self.known:
            pr = f.get("probe")
            if not pr:
                continue
            n += 1
            with scratch("probe") as d:
                for rel, text in (pr.get("files") or {}).items():
                    path = os.path.join(d, rel)
                    os.makedirs(os.path.dirname(path), exist_ok=True)
                    with open(path, "w", newline="") as fh:
                        fh.write(text)
                for rel in pr.get("dirs") or []:
                    os.makedirs(os.path.join(d, rel), exist_ok=True)
                nest = pr.get("nest")
                if nest:      # the same file in a chain of nested directories
                    cur = d
                    for _ in range(nest["depth"]):
                        with open(os.path.join(cur, nest["file"]), "w") as fh:
                            fh.write(nest["text"])
                        cur = os.path.join(cur, nest["dir"])
                        os.makedirs(cur, exist_ok=True)
                env = dict(BASE_ENV)
                env.update({"HOME": d, "TMPDIR": d})
                env.update(pr.get("env") or {})
                try:
                    limit = None
                    if pr.get("rlimit_as_mb"):
                        def limit(mb=pr["rlimit_as_mb"]):
                            import resource
                            resource.setrlimit(resource.RLIMIT_AS, (mb << 20, mb << 20))
                    q = subprocess.run([JUST] + pr["argv"], cwd=os.path.join(d, pr.get("cwd", "")), env=env, preexec_fn=limit,
                                       input=(pr.get("stdin") or "").encode(), stdout=subprocess.PIPE, stderr=subprocess.PIPE, timeout=pr.get("timeout", 30))
                    rc, out, err = q.returncode, q.stdout.decode("utf-8", "replace"), q.stderr.decode("utf-8", "replace")
                except subprocess.TimeoutExpired:
                    rc, out, err = None, "", "timeout"
            sh = pr.get("shows") or {}
            still = True
            if "exit" in sh and rc != sh["exit"]:
                still = False
            if "exit_in" in sh and rc not in sh["exit_in"]:
                still = False
            if "stdout_not_re" in sh and _re.search(sh["stdout_not_re"], out):
                still = False
            if "stdout_re" in sh and not _re.search(sh["stdout_re"], out):
                still = False
            if "stderr_re" in sh and not _re.search(sh["stderr_re"], err):
                still = False
            if still:
                self.failure(f["signature"], f.get("description", ""), {"probe": pr, "observed": {"exit": rc, "stdout": out[-400:], "stderr": err[-400:]}})
        self.coverage["known_finding_probes"] = n

    def match_known(self, signature):
        for f in self.known:
            if f["signature"] == signature:
                return f
        return None

    def failure(self, signature, what, replay, no_input=False):
        """Report a property failure. `signature` identifies the specific defect; if it is listed in
        known_findings.json it is printed as KNOWN-FINDING, otherwise as a VIOLATION."""
        k = self.match_known(signature)
        if k is not None:
            if signature not in self.known_hits:
                self.known_hits[signature] = what
                print("KNOWN-FINDING: property=%s %s" % (self.prop, k.get("description", what)), flush=True)
            return False
        if any(v["signature"] == signature for v in self.violations):
            return True
        if len(self.violations) >= 12:
            # enough replay files; keep counting
            self.violations.append({"signature": signature, "path": None, "what": what, "no_input": no_input})
            return True
        d = os.path.join(ROOT, "replays", self.prop)
        os.makedirs(d, exist_ok=True)
        body = {"property": self.prop, "signature": signature, "what": what, "replay": replay,
                "seed": self.seed, "tier": self.tier}
        if no_input:
            body["no_failing_input_found"] = True
        h = hashlib.sha256(json.dumps(body, sort_keys=True, default=str).encode()).hexdigest()[:12]
        path = os.path.join(d, h + ".json")
        with open(path, "w") as f:
            json.dump(body, f, indent=1, default=str, ensure_ascii=False)
        self.violations.append({"signature": signature, "path": path, "what": what, "no_input": no_input})
        line = "VIOLATION property=%s replay=%s" % (self.prop, path)
        if no_input:
            line += " no-failing-input-found"
        print(line, flush=True)
        log("  -> " + what)
        return True

    def write(self, extra=None):
        cov = dict(self.coverage)
        ev = {
            "property_id": self.prop,
            "tier": self.tier,
            "seed": self.seed,
            "level": self.level,
            "coverage": cov,
            "assumptions": self.assumptions,
            "wall_s": round(time.time() - self.t0, 2),
            "violations": len(self.violations),
            "known_findings_hit": sorted(self.known_hits),
        }
        if extra:
            ev.update(extra)
        d = os.path.join(ROOT, "evidence")
        os.makedirs(d, exist_ok=True)
        with open(os.path.join(d, self.prop + ".json"), "w") as f:
            json.dump(ev, f, indent=1, ensure_ascii=False, default=str)
        return ev


def proof_stage(report, prop, thorough=False):
    """Build and audit the Lean obligations of `prop`; fills the proof keys of the coverage.
    Returns True when every obligation is discharged with allowed axioms only."""
    targets = ["Just.Props." + prop, "driver"]
    # the tables the models read (functions, constants, justfile names, attributes, settings, signals) are regenerated
    # from /repo/src before every build
    from . import extract as _extract
    with flock("lake"):
        _changed, _notes = _extract.regenerate()
    report.coverage["tables_regenerated_from_source"] = {"changed": bool(_changed), "notes": _notes}
    ok, out = lake_build(targets)
    checker = "cd lean && lake build Just.Props.%s && lake env lean Just/Audit/%s.lean" % (prop, prop)
    if not ok:
        report.coverage.update({"obligations": 1, "discharged": 0, "checker_cmd": checker, "trusted_base": []})
        report.failure("lean-build:" + prop, "lake build of Just.Props.%s failed:\n%s" % (prop, out[-3000:]),
                       {"theorem": "Just.Props." + prop, "log": out[-3000:]}, no_input=True)
        return False
    aok, theorems, bad, aout = lean_audit(prop)
    n = len(theorems)
    good = [t for t, ax in theorems.items() if set(ax) <= ALLOWED_AXIOMS]
    axioms_used = sorted({a for ax in theorems.values() for a in ax})
    if thorough:
        p = subprocess.run(["lake", "env", "leanchecker", "Just.Props." + prop], cwd=LEAN,
                           stdout=subprocess.PIPE, stderr=subprocess.STDOUT, text=True)
        report.coverage["leanchecker_rc"] = p.returncode
        checker += " && lake env leanchecker Just.Props." + prop
        if p.returncode != 0:
            aok = False
            aout += "\nleanchecker: " + p.stdout[-2000:]
    report.coverage.update({
        "obligations": max(n, 1),
        "discharged": len(good) if (aok and not bad) else 0,
        "checker_cmd": checker,
        "theorems": sorted(theorems),
        "axioms_used": axioms_used,
        "trusted_base": [
            "Lean 4 kernel (lake build; leanchecker in the thorough tier)",
            "axioms: " + (", ".join(axioms_used) if axioms_used else "none"),
            "no sorry/admit/axiom/native_decide/bv_decide/implemented_by/unsafe in lean/Just (grep)",
            "hand-written model tied to /repo by the correspondence check of this run",
        ],
    })
    if not aok or bad or n == 0 or len(good) != n:
        report.failure("lean-audit:" + prop,
                       "axiom audit failed: ok=%s forbidden=%s theorems=%d good=%d\n%s" % (aok, bad[:5], n, len(good), aout[-2000:]),
                       {"theorem": "Just.Audit." + prop, "forbidden": bad, "log": aout[-3000:]}, no_input=True)
        return False
    return True


def finish(report):
    report.write()
    if report.violations:
        return 1
    return 0
