"""C18 - environment files are located and applied as documented."""
import itertools
import json
import os
import subprocess

from . import common as C

PLACE = ["wd", "anc", "absent"]


def space(tier, seed):
    allc = []
    for sl, sf, sp, sr, flag, p_env, p_f, p_g, p_p, p_q, inv, dirs in itertools.product(
            [None, True, False], [None, "f.env"], [None, "p.env"], [False, True],
            ["none", "fname", "fpath", "nodotenv"], PLACE, PLACE, PLACE, [True, False], [True, False], ["plain", "jfwd", "subdir"],
            [False, True]):
        if sf is None and p_f != "absent":
            continue  # f.env only matters when named
        if flag != "fname" and p_g != "absent":
            continue
        if sp is None and not p_p:
            continue
        if flag != "fpath" and not p_q:
            continue
        allc.append({"set_load": sl, "set_filename": sf, "set_path": sp, "set_required": sr, "flag": flag,
                     "files": {".env": p_env, "f.env": p_f, "g.env": p_g}, "p.env": p_p and sp is not None,
                     "q.env": p_q and flag == "fpath", "inv": inv, "dirs": dirs})
    total = len(allc)
    if tier == "quick":
        rng = C.case_rng(seed, 0, "c18")
        rng.shuffle(allc)
        allc = allc[:1500]
    return allc, total


def envfile(tag):
    return "K=%s\nPRESET=%s-preset\n" % (tag, tag)


def run_case(c):
    with C.scratch("c18") as d:
        d = os.path.realpath(d)
        top = os.path.join(d, "top")
        proj = os.path.join(top, "proj")
        sub = os.path.join(proj, "deep")
        other_top = os.path.join(d, "otop")
        other = os.path.join(other_top, "other")
        for x in (proj, sub, other):
            os.makedirs(x)
        wd = other if c["inv"] == "jfwd" else proj
        anc = other_top if c["inv"] == "jfwd" else top
        for name, place in c["files"].items():
            if place == "wd":
                open(os.path.join(wd, name), "w").write(envfile("wd:" + name))
            elif place == "anc":
                open(os.path.join(anc, name), "w").write(envfile("anc:" + name))
        if c["p.env"]:
            open(os.path.join(wd, "p.env"), "w").write(envfile("path:p.env"))
        if c["q.env"]:
            open(os.path.join(wd, "q.env"), "w").write(envfile("path:q.env"))
        # decoys that must never be loaded: the justfile directory's files when --working-directory points elsewhere,
        # and a file named by the SUBMODULE's settings
        if c["inv"] == "jfwd":
            for name in (".env", "f.env", "g.env", "p.env", "q.env"):
                open(os.path.join(proj, name), "w").write(envfile("decoy-justfile-dir:" + name))
        open(os.path.join(wd, "sub.env"), "w").write(envfile("decoy-submodule-setting"))
        # directories named like an environment file are not environment files: the search passes over them
        if c.get("dirs"):
            for name in (".env", "f.env", "g.env", "p.env", "q.env"):
                if not os.path.exists(os.path.join(wd, name)):
                    os.makedirs(os.path.join(wd, name, "bin"))
        jf = 'set shell := ["%s", "-c"]\n' % C.VSH
        if c["set_load"] is not None:
            jf += "set dotenv-load := %s\n" % ("true" if c["set_load"] else "false")
        if c["set_filename"]:
            jf += "set dotenv-filename := '%s'\n" % c["set_filename"]
        if c["set_path"]:
            jf += "set dotenv-path := '%s'\n" % c["set_path"]
        if c["set_required"]:
            jf += "set dotenv-required\n"
        jf += "mod sub\nbt := `[B]`\n\nr:\n  [T] {{env('K', 'unset')}}|{{env('PRESET', 'unset')}}|{{bt}}\n"
        open(os.path.join(proj, "justfile"), "w").write(jf)
        subjf = 'set shell := ["%s", "-c"]\nset dotenv-filename := \'sub.env\'\n\nr:\n  [S] {{env(\'K\', \'unset\')}}|{{env(\'PRESET\', \'unset\')}}\n' % C.VSH
        open(os.path.join(proj, "sub.just"), "w").write(subjf)
        argv = []
        if c["flag"] == "fname":
            argv += ["--dotenv-filename", "g.env"]
        elif c["flag"] == "fpath":
            argv += ["--dotenv-path", "q.env"]
        elif c["flag"] == "nodotenv":
            argv += ["--no-dotenv"]
        cwd = proj
        if c["inv"] == "jfwd":
            argv += ["--justfile", os.path.join(proj, "justfile"), "--working-directory", other]
            cwd = d
        elif c["inv"] == "subdir":
            cwd = sub
        argv += ["r", "sub::r"]
        logp = os.path.join(d, "vsh.log")
        env = dict(C.BASE_ENV)
        env.update({"HOME": d, "TMPDIR": d, "VSH_LOG": logp, "PRESET": "from-env", "VSH_PLAN": "[B]=out:" + C.hexs("b")})
        p = subprocess.run([C.JUST] + argv, cwd=cwd, env=env, stdin=subprocess.DEVNULL, stdout=subprocess.PIPE,
                           stderr=subprocess.PIPE)
        obs = {"rc": p.returncode, "sites": {}}
        for e in C.read_vsh_log(logp):
            text = e["argv"][2]
            site = text[:3]
            rec = {"child_K": e["env"].get("K"), "child_PRESET": e["env"].get("PRESET")}
            if site in ("[T]", "[S]"):
                parts = text[4:].split("|")
                rec["fn_K"] = None if parts[0] == "unset" else parts[0]
                rec["fn_PRESET"] = parts[1]
            obs["sites"][site] = rec
        stderr = p.stderr.decode("utf-8", "replace")
        obs["error"] = "required" if "Dotenv file not found" in stderr else (None if p.returncode == 0 else "other:" + stderr[-200:])
        # abstract file system for the model / spec
        wd_files = sorted(x for x in os.listdir(wd) if os.path.isfile(os.path.join(wd, x)))
        anc_files = sorted(x for x in os.listdir(anc) if os.path.isfile(os.path.join(anc, x)))
        return {"obs": obs, "wd_files": wd_files, "anc_files": anc_files, "argv": [a.replace(d, "<D>") for a in argv],
                "justfile": jf}


def spec(c, r):
    """The statement, written directly: returns the tag of the file loaded, None, or 'error'."""
    flag_f = "g.env" if c["flag"] == "fname" else None
    flag_p = "q.env" if c["flag"] == "fpath" else None
    if c["flag"] == "nodotenv":
        return None
    filename = flag_f or c["set_filename"]
    path = flag_p or c["set_path"]
    if not (c["set_load"] or filename or path or c["set_required"]):
        return None
    if path and path in r["wd_files"]:
        return "path:" + path
    name = filename or ".env"
    if name in r["wd_files"]:
        return "wd:" + name
    if name in r["anc_files"]:
        return "anc:" + name
    return "error" if c["set_required"] else None


def run(report):
    tier = report.tier
    just, bt = C.build_just()
    C.proof_stage(report, "C18", thorough=(tier == "thorough"))
    drv = C.Driver()
    cases, total = space(tier, report.seed)
    results = C.pmap(run_case, cases)
    reqs = []
    for c, r in zip(cases, results):
        cfg = {"setLoad": bool(c["set_load"]), "setFilename": c["set_filename"], "setPath": c["set_path"],
               "setRequired": c["set_required"], "flagFilename": "g.env" if c["flag"] == "fname" else None,
               "flagPath": "q.env" if c["flag"] == "fpath" else None, "noDotenv": c["flag"] == "nodotenv"}
        reqs.append({"op": "dotenv", "cfg": cfg, "pathFiles": r["wd_files"], "ancestors": [r["wd_files"], r["anc_files"], ["x"]]})
    model = drv.pbatch(reqs, chunk=3000)
    stats = {"cases": len(cases), "space": total, "with_directories_named_like_env_files": sum(1 for c in cases if c.get("dirs")), "loaded": {}, "inactive_or_empty": 0, "required_errors": 0, "strace_checked": 0}
    distinct = set()
    samples = []
    for c, r, m in zip(cases, results, model):
        if "fatal" in m:
            raise C.BuildError("model driver: " + m["fatal"])
        want = spec(c, r)
        obs = r["obs"]
        distinct.add(json.dumps([c, obs], sort_keys=True))
        replay = {"case": c, "argv": r["argv"], "justfile": r["justfile"], "wd_files": r["wd_files"], "anc_files": r["anc_files"],
                  "observed": obs, "expected_file": want}
        if want == "error":
            stats["required_errors"] += 1
            if obs["error"] != "required" or obs["sites"]:
                report.failure("c18-required", "missing file under dotenv-required must be an error and run nothing", replay)
            continue
        if obs["rc"] != 0 or obs["error"]:
            report.failure("c18-unexpected-error", "run failed although the configuration is valid: %s" % obs["error"], replay)
            continue
        if want is None:
            stats["inactive_or_empty"] += 1
        else:
            stats["loaded"][want.split(":")[0]] = stats["loaded"].get(want.split(":")[0], 0) + 1
        bad = None
        for site in ("[B]", "[T]", "[S]"):
            rec = obs["sites"].get(site)
            if rec is None:
                bad = (site, "site did not run")
                break
            # loaded entries visible to children and env(), in root and submodule
            if rec["child_K"] != want:
                bad = (site, "child sees K=%s, documented %s" % (rec["child_K"], want))
                break
            if "fn_K" in rec and rec["fn_K"] != want:
                bad = (site, "env('K') = %s, documented %s" % (rec["fn_K"], want))
                break
            # never override a variable already present in just's environment
            if rec["child_PRESET"] != "from-env":
                bad = (site, "child sees PRESET=%s although it was already set" % rec["child_PRESET"])
                break
            if "fn_PRESET" in rec and rec["fn_PRESET"] != "from-env":
                bad = (site, "env('PRESET') = %s although it was already set" % rec["fn_PRESET"])
                break
        if bad:
            kind = "override" if "PRESET" in bad[1] else ("wrong-file" if want else "loaded-when-inactive")
            report.failure("c18-%s:%s" % (kind, bad[0]), "%s: %s" % bad, replay)
            continue
        # model correspondence
        res = m["res"]
        if isinstance(res, dict):
            k = list(res.keys())[0]
            if k == "loadedPath":
                mres = "path:" + res[k]["p"]
            else:
                mres = ("wd:" if res[k]["level"] == 0 else "anc:") + res[k]["name"]
        else:
            mres = {"inactive": None, "empty": None, "errorRequired": "error"}[res]
        if mres != want:
            report.failure("c18-model", "Lean model disagrees with the implementation / statement",
                           dict(replay, correspondence="C18 vs Just.Dotenv.load", model=res), no_input=True)
        if len(samples) < 3 and want and want.startswith("anc") and c["inv"] == "jfwd":
            samples.append({"case": c, "argv": r["argv"], "loaded": want})
    # support: when no dotenv setting is active no environment file is opened (strace on a sample)
    inactive = [c for c in cases if spec(c, {"wd_files": [".env"], "anc_files": []}) is None and c["flag"] != "nodotenv"
                and not (c["set_load"] or c["set_filename"] or c["set_path"] or c["set_required"] or c["flag"] in ("fname", "fpath"))][:8]
    for c in inactive:
        with C.scratch("c18s") as d:
            open(os.path.join(d, ".env"), "w").write("K=v\n")
            open(os.path.join(d, "justfile"), "w").write("r:\n  true\n")
            p = subprocess.run(["strace", "-f", "-e", "trace=openat,open", C.JUST, "r"], cwd=d, env=dict(C.BASE_ENV, HOME=d),
                               stdout=subprocess.PIPE, stderr=subprocess.PIPE)
            stats["strace_checked"] += 1
            opened = [l for l in p.stderr.decode("utf-8", "replace").split("\n") if ".env" in l]
            if opened:
                report.failure("c18-read-when-inactive", "an environment file was opened although no dotenv setting is active",
                               {"case": c, "strace": opened[:5]})
    report.coverage.update({
        "evaluations": len(cases),
        "distinct_nontrivial": len(distinct),
        "rule": "product of settings {dotenv-load none/true/false, dotenv-filename, dotenv-path, dotenv-required} x flag {none, --dotenv-filename, --dotenv-path, --no-dotenv} x placement of each candidate file {working directory, ancestor, absent} x {no, a directory of the same name wherever the working directory has no such file} x invocation {justfile dir, subdirectory, --justfile + --working-directory elsewhere with decoy files in the justfile dir}; a key preset in the environment; submodule with its own dotenv settings (ignored); %s; distinct = distinct (case, observation)" % ("complete" if tier == "thorough" else "random sample, space size in stats"),
        "samples": samples,
        "exhaustive": tier == "thorough",
        "traces_validated_against_impl": len(cases),
        "stats": stats,
        "build_s": round(bt, 1),
    })
    report.assumptions += [
        "dotenv file syntax is dotenvy's; files contain plain K=V lines",
        "`no file is read when inactive` is supported by strace on a sample, not proved",
    ]


def replay(report, path):
    body = json.load(open(path))
    C.build_just()
    r = run_case(body["replay"]["case"])
    print(json.dumps({"observed": r["obs"], "expected_file": spec(body["replay"]["case"], r)}, indent=1))
    report.coverage.update({"obligations": 1, "discharged": 1, "checker_cmd": "replay", "trusted_base": []})
