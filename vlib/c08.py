"""C08 - exactly the declared variables are exported to child processes."""
import json
import os
import subprocess

from . import common as C

CONSTS = [("HEX", "0123456789abcdef"), ("HEXLOWER", "0123456789abcdef"), ("HEXUPPER", "0123456789ABCDEF")]
# HEX / HEXUPPER: user variables and parameters that shadow a built-in constant are ordinary bindings
# _P / [private]: private variables are exported like any other
VARNAMES = ["A", "B", "COLL", "E1", "D1", "U1", "HEX", "_P"]
NAMES = ["A", "B", "COLL", "E1", "E2", "D1", "D2", "U1", "P1", "P2", "P3", "bt", "HEX", "HEXLOWER", "HEXUPPER", "_P"]
OUTS = {"[B-mod-root]": "btroot", "[B-mod-m]": "btm", "[B-mod-k]": "btk", "[B-def]": "defv", "[B-int]": "iv", "[B-shell]": "sv"}


def gen(rng):
    cfg = {}
    cfg["base"] = {"E1": "base1", "E2": "base2", "COLL": "basecoll"} if rng.random() < 0.8 else {"E1": "base1"}
    cfg["dotenv_load"] = rng.random() < 0.6
    cfg["dotenv_file"] = {"D1": "dot1", "D2": "dot2", "COLL": "dotcoll", "E2": "dotE2"}
    cfg["in_module"] = rng.random() < 0.45
    cfg["script"] = rng.random() < 0.3        # the recipe is a shebang recipe: another code path starts the child

    def module(is_root):
        m = {"set_export": rng.random() < 0.35, "vars": [], "unexports": []}
        for n in VARNAMES:
            if rng.random() < 0.4:
                m["vars"].append({"name": n, "value": ("root" if is_root else "mod") + n, "export": rng.random() < 0.5,
                                  "private": rng.random() < 0.25})
        return m

    cfg["root"] = module(True)
    cfg["m"] = module(False) if cfg["in_module"] else None
    # a sibling module invoked on the same command line (scopes of different modules must not mix)
    cfg["k"] = module(False) if cfg["in_module"] and rng.random() < 0.6 else None
    if cfg["k"]:
        for v in cfg["k"]["vars"]:
            v["value"] = "sib" + v["name"]
    owner = cfg["m"] if cfg["in_module"] else cfg["root"]
    # unexports of the owning module: never a variable of the same module (compile error), and not a name a
    # parent module exports (the statement does not determine that case; see Props/C08.unexport_vs_parameter)
    forbidden = {v["name"] for v in owner["vars"]} | {"bt"}
    if cfg["in_module"]:
        forbidden |= {v["name"] for v in cfg["root"]["vars"] if v["export"] or owner["set_export"]}
        forbidden |= {"bt"} if owner["set_export"] else set()
    for n in ["E1", "D1", "U1", "COLL", "P1", "A", "E2"]:
        if n not in forbidden and rng.random() < 0.3:
            owner["unexports"].append(n)
    # parameters: names may shadow variables; `$` = exported
    pnames = rng.sample(["P1", "P2", "A", "COLL", "U1", "E1", "HEXUPPER", "HEX"], 2)
    cfg["params"] = [{"name": pnames[0], "export": rng.random() < 0.6, "value": "arg0"},
                     {"name": pnames[1], "export": rng.random() < 0.4, "value": "arg1"},
                     {"name": "P3", "export": rng.random() < 0.5, "value": OUTS["[B-def]"]}]
    return cfg


def module_text(cfg, m, is_root):
    t = 'set shell := ["%s", "-c"]\n' % C.VSH
    if is_root and cfg["dotenv_load"]:
        t += "set dotenv-load\n"
    if m["set_export"]:
        t += "set export\n"
    for u in m["unexports"]:
        t += "unexport %s\n" % u
    for v in m["vars"]:
        t += "%s%s%s := '%s'\n" % ("[private]\n" if v.get("private") else "", "export " if v["export"] else "", v["name"], v["value"])
    t += "bt := `%s`\n" % ("[B-mod-root]" if is_root else "[B-mod-m]")
    if is_root and cfg["in_module"]:
        t += "mod m\n"
        if cfg.get("k"):
            t += "mod k\n"
    if is_root == (not cfg["in_module"]):
        ps = cfg["params"]
        t += "\nr %s%s %s%s %sP3=`[B-def]`:\n" % ("$" if ps[0]["export"] else "", ps[0]["name"], "$" if ps[1]["export"] else "",
                                                  ps[1]["name"], "$" if ps[2]["export"] else "")
        if cfg.get("script"):
            t += "  #!%s\n" % C.VSH
        t += "  [T-body] {{`[B-int]`}} {{shell('[B-shell]')}}\n"
    return t


def scope_of_module(m, btval):
    s = [{"name": v["name"], "value": v["value"], "exported": v["export"], "constant": False} for v in m["vars"]]
    s.append({"name": "bt", "value": btval, "exported": False, "constant": False})
    return s


def chains(cfg):
    """site -> (chain outermost first, owner module)"""
    consts = [{"name": k, "value": v, "exported": False, "constant": True} for k, v in CONSTS]
    root = scope_of_module(cfg["root"], OUTS["[B-mod-root]"])
    mods = [consts, root]
    if cfg["in_module"]:
        mods.append(scope_of_module(cfg["m"], OUTS["[B-mod-m]"]))
    params = [{"name": p["name"], "value": p["value"], "exported": p["export"], "constant": False} for p in cfg["params"]]
    owner_site = "[B-mod-m]" if cfg["in_module"] else "[B-mod-root]"
    out = {
        owner_site: mods,                              # module-level backtick: the module's own scope is current
        "[B-def]": mods + [params],                    # parameter default: the parameter scope is current
        "[T-body]": mods + [params, []],               # recipe line: the (empty) body scope is current
        "[B-int]": mods + [params, [], []],            # interpolation backtick: evaluator scope below the body scope
        "[B-shell]": mods + [params, [], []],
    }
    if cfg["in_module"]:
        out["[B-mod-root]"] = [consts, root]
    # `just --command …`: a child of the root module's scope
    out["[CMD]"] = [consts, root, []]
    if cfg.get("k"):
        ks = [{"name": v["name"], "value": v["value"], "exported": v["export"], "constant": False} for v in cfg["k"]["vars"]]
        ks.append({"name": "bt", "value": "btk", "exported": False, "constant": False})
        out["[T-k]"] = [consts, root, ks, [], []]
    return out


def spec_env(cfg, site, chain, owner):
    """The statement, written directly: innermost exported binding of the enclosing scopes (not the current one),
    else absent if unexported, else dotenv (never shadowing the environment), else just's own environment."""
    res = {}
    dot = {k: v for k, v in cfg["dotenv_file"].items() if k not in cfg["base"]} if cfg["dotenv_load"] else {}
    for n in NAMES:
        val = None
        found = False
        for scope in reversed(chain[:-1]):
            for b in scope:
                if b["name"] == n and (b["exported"] or (owner["set_export"] and not b["constant"])):
                    val = b["value"]
                    found = True
            if found:
                break
        if not found:
            if n in owner["unexports"]:
                val = None
            elif n in dot:
                val = dot[n]
            else:
                val = cfg["base"].get(n)
        res[n] = val
    return res


def run_cfg(cfg):
    with C.scratch("c08") as d:
        open(os.path.join(d, "justfile"), "w").write(module_text(cfg, cfg["root"], True))
        if cfg["in_module"]:
            open(os.path.join(d, "m.just"), "w").write(module_text(cfg, cfg["m"], False))
        if cfg.get("k"):
            t = 'set shell := ["%s", "-c"]\n' % C.VSH + ("set export\n" if cfg["k"]["set_export"] else "")
            for v in cfg["k"]["vars"]:
                t += "%s%s%s := '%s'\n" % ("[private]\n" if v.get("private") else "", "export " if v["export"] else "", v["name"], v["value"])
            t += "bt := `[B-mod-k]`\n\ns:\n  [T-k]\n"
            open(os.path.join(d, "k.just"), "w").write(t)
        open(os.path.join(d, ".env"), "w").write("".join("%s=%s\n" % kv for kv in cfg["dotenv_file"].items()))
        logp = os.path.join(d, "vsh.log")
        env = dict(C.BASE_ENV)
        env.update({"HOME": d, "TMPDIR": d, "VSH_LOG": logp,
                    "VSH_PLAN": ";".join("%s=out:%s" % (k, C.hexs(v)) for k, v in OUTS.items())})
        env.update(cfg["base"])
        argv = ["m::r" if cfg["in_module"] else "r", "arg0", "arg1"]
        if cfg.get("k"):
            argv = ["k::s"] + argv
        p = subprocess.run([C.JUST] + argv, cwd=d, env=env, stdin=subprocess.DEVNULL, stdout=subprocess.PIPE,
                           stderr=subprocess.PIPE)
        p2 = subprocess.run([C.JUST, "--command", C.VSH, "-c", "[CMD]"], cwd=d, env=env, stdin=subprocess.DEVNULL, stdout=subprocess.PIPE,
                            stderr=subprocess.PIPE)
        sites = {}
        for e in C.read_vsh_log(logp):
            if e["script"] is not None:
                text = ([l for l in e["script"].split("\n") if l.startswith("[T-")] or [""])[0]
            else:
                text = e["argv"][2] if len(e["argv"]) > 2 else ""
            key = text.split(" ")[0]
            sites.setdefault(key, e["env"])
        return {"rc": p.returncode, "sites": sites, "stderr": p.stderr.decode("utf-8", "replace")[-500:], "given_env": env, "argv": argv}


def run(report):
    tier = report.tier
    just, bt = C.build_just()
    C.proof_stage(report, "C08", thorough=(tier == "thorough"))
    drv = C.Driver()
    n = 1200 if tier == "quick" else 30000
    cfgs = [gen(C.case_rng(report.seed, i, "c08")) for i in range(n)]
    results = C.pmap(run_cfg, cfgs)
    reqs = []
    index = []
    for ci, cfg in enumerate(cfgs):
        owner = cfg["m"] if cfg["in_module"] else cfg["root"]
        dot = [[k, v] for k, v in cfg["dotenv_file"].items() if k not in cfg["base"]] if cfg["dotenv_load"] else []
        for site, chain in chains(cfg).items():
            own = cfg["root"] if site in ("[B-mod-root]", "[CMD]") else (cfg["k"] if site == "[T-k]" else owner)
            reqs.append({"op": "childenv", "base": [[k, v] for k, v in cfg["base"].items()], "dotenv": dot,
                         "setExport": own["set_export"], "unexports": own["unexports"], "chain": chain, "names": NAMES})
            index.append((ci, site, chain, own))
    model = drv.pbatch(reqs, chunk=2000)
    stats = {"configurations": n, "sites_compared": 0, "in_submodule": sum(1 for c in cfgs if c["in_module"]),
             "set_export": 0, "with_unexports": 0, "dotenv_loaded": sum(1 for c in cfgs if c["dotenv_load"]), "shebang_recipes": sum(1 for c in cfgs if c.get("script")),
             "exported_values_seen": 0, "unexported_removed": 0}
    distinct = set()
    samples = []
    for (ci, site, chain, own), m in zip(index, model):
        cfg, r = cfgs[ci], results[ci]
        if "fatal" in m:
            raise C.BuildError("model driver: " + m["fatal"])
        replay = {"config": cfg, "site": site, "justfile": module_text(cfg, cfg["root"], True),
                  "m.just": module_text(cfg, cfg["m"], False) if cfg["in_module"] else None, "argv": r["argv"]}
        if r["rc"] != 0 or site not in r["sites"]:
            report.failure("c08-run-failed", "the generated configuration did not run (rc=%s): %s" % (r["rc"], r["stderr"][-200:]), replay, no_input=True)
            continue
        obs_full = r["sites"][site]
        obs = {k: obs_full.get(k) for k in NAMES}
        spec = spec_env(cfg, site, chain, own)
        stats["sites_compared"] += 1
        if own["set_export"]:
            stats["set_export"] += 1
        if own["unexports"]:
            stats["with_unexports"] += 1
        stats["exported_values_seen"] += sum(1 for k in NAMES if obs[k] is not None and obs[k] != cfg["base"].get(k))
        stats["unexported_removed"] += sum(1 for k in own["unexports"] if obs.get(k) is None and k in cfg["base"])
        distinct.add(json.dumps([site, obs], sort_keys=True))
        extra = set(obs_full) - set(NAMES) - set(r["given_env"]) - {"PWD", "OLDPWD", "SHLVL", "_"}
        if obs != spec or extra:
            diff = {k: {"observed": obs[k], "expected": spec[k]} for k in NAMES if obs[k] != spec[k]}
            replay.update({"difference": diff, "unexpected_variables": sorted(extra)})
            kind = "extra" if extra else sorted(diff)[0] + ("-leaked" if list(diff.values())[0]["expected"] is None else "-wrong")
            # known corner: `unexport X` in the module and an exported parameter `$X` (or any parameter under
            # `set export`): export_scope repeats the removal at every scope level, so the parameter reaches the
            # recipe line but not backticks / shell() evaluated inside the body (one scope deeper)
            conflict = {p_["name"] for p_ in cfg["params"] if (p_["export"] or own["set_export"]) and p_["name"] in own["unexports"]}
            if not extra and site in ("[B-int]", "[B-shell]") and diff and set(diff) <= conflict and \
                    all(v["observed"] is None for v in diff.values()):
                report.failure("c08-unexported-parameter-hidden-from-body-backticks",
                               "exported parameter named in `unexport` is visible to the recipe line but not to backticks/shell() in its interpolations", replay)
                continue
            report.failure("c08-env:%s:%s" % (site, "leak" if "-leaked" in kind or extra else "value"),
                           "child environment at %s differs from the declared exports: %s" % (site, diff or sorted(extra)), replay)
            continue
        if m["env"] != obs:
            diff = {k: {"observed": obs[k], "model": m["env"][k]} for k in NAMES if obs[k] != m["env"][k]}
            report.failure("c08-model", "Lean model and implementation disagree (statement oracle holds)",
                           dict(replay, correspondence="C08 child environment vs Just.EnvExport.childEnv", difference=diff), no_input=True)
        if len(samples) < 3 and cfg["in_module"] and own["unexports"] and site == "[T-body]":
            samples.append({"justfile": replay["justfile"], "m.just": replay["m.just"], "site": site,
                            "env": {k: v for k, v in obs.items() if v is not None}})
    report.coverage.update({
        "evaluations": stats["sites_compared"],
        "distinct_nontrivial": len(distinct),
        "rule": "random configurations: exported/plain assignments (some `[private]` or underscore-named, some named like a constant) over colliding names in root and submodule, `set export`, unexport names, $/plain parameters shadowing variables, dotenv entries colliding with the environment; the child environment is dumped at 6 sites (module-level backtick, parameter-default backtick, recipe line or shebang script, interpolation backtick, shell(), --command); distinct = distinct (site, environment restricted to the candidate names)",
        "samples": samples,
        "traces_validated_against_impl": stats["sites_compared"],
        "stats": stats,
        "build_s": round(bt, 1),
    })
    report.assumptions += [
        "`set export` and `unexport` of the module that owns the recipe apply to the whole scope chain, parents included, as the code does",
        "a child module unexporting a name that a parent module exports is not generated: the statement does not determine that case (Props/C08.unexport_vs_parameter)",
        "environment passing itself is std::process::Command's and the OS's",
    ]


def replay(report, path):
    body = json.load(open(path))
    C.build_just()
    rp = body["replay"]
    r = run_cfg(rp["config"])
    site = rp["site"]
    print(json.dumps({"site": site, "env": {k: r["sites"].get(site, {}).get(k) for k in NAMES}, "difference_before": rp.get("difference")}, indent=1))
    report.coverage.update({"obligations": 1, "discharged": 1, "checker_cmd": "replay", "trusted_base": []})
