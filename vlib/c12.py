"""C12 - diagnostics point at the offending token.

Proof: lean/Just/Props/C12.lean (token_positions, error_position, tokens_tile, context_points,
context_multiline, context_none) over the Lean port of the lexer and of Token's ColorDisplay.

Tie to the code (all in-process through the `jv` harness, plus the real binary for file names):
  A. lexer correspondence: model tokens / error token == implementation, on enumerated, random and
     mutated sources;  context correspondence: for every compile error of those sources, the
     printed context == the model's `context` of the reported token.
  B. statement oracle (independent of the model): an error of a known kind is injected at a known
     place of a file with tabs, CRLF, multi-byte and wide characters around it; the reported
     file:line:column, echoed line and carets must be the ones computed from the construction.
"""
import json
import os
import random
import re

from . import common as C
from . import lexgen as G

ARROW = "\u2014\u2014\u25b6"
BAR = "\u2502"


# ------------------------------------------------------------------------------------------------
# widths (taken from the unicode-width crate the implementation links, through jv)

class Widths:
    def __init__(self, jv):
        self.jv = jv
        self.table = {}

    def learn(self, texts):
        chars = sorted({c for t in texts for c in t if c not in self.table and (ord(c) > 126 or ord(c) < 32)})
        if not chars:
            return
        r = self.jv.batch([{"op": "widths", "src": "".join(chars)}])[0]
        for cp, w in r["widths"]:
            self.table[chr(cp)] = w

    def w(self, c):
        if c == "\t":
            return 4
        if c in self.table:
            return self.table[c]
        return 1

    def pairs(self, text):
        return sorted({(ord(c), self.table[c]) for c in text if c in self.table})


# ------------------------------------------------------------------------------------------------
# the statement oracle: what must be printed for a token given by (offset, length) in src

def rust_lines(src):
    """str::lines"""
    out = []
    parts = src.split("\n")
    for i, p in enumerate(parts):
        last = i == len(parts) - 1
        if last:
            if p != "":
                out.append(p)
        else:
            out.append(p[:-1] if p.endswith("\r") else p)
    return out


def expected_context(src, offset, length, widths):
    b = src.encode("utf-8")
    pre = b[:offset]
    line = pre.count(b"\n")
    col = len(pre) - (pre.rfind(b"\n") + 1)
    lines = rust_lines(src)
    if line >= len(lines):
        # the end of a file that ends with a line feed: a line of its own, shown empty (the statement asks for a
        # location, an echoed line and a caret for every rejection; printing nothing here was a defect, repaired)
        if offset != len(b):
            return None
        text = ""
    else:
        text = lines[line]
    width = max(length, 1)
    i = 0
    before = 0
    inside = 0
    for c in text:
        if i < col:
            before += widths.w(c)
        elif i < col + width:
            inside += widths.w(c)
        i += len(c.encode("utf-8"))
    return {"line": line + 1, "column": col + 1, "echoed": text.replace("\t", "    "),
            "caretOffset": before, "caretCount": max(inside, 1)}


def parse_context(ctx):
    """parse the context printed by Token's ColorDisplay (colour off); returns dict or None (nothing printed)"""
    if ctx == "":
        return None
    lines = ctx.split("\n")
    if len(lines) != 4:
        return {"malformed": ctx}
    m = re.match(r"^( *)" + ARROW + r" (.*):(\d+):(\d+)$", lines[0])
    if not m:
        return {"malformed": ctx}
    pad, path, ln, col = m.group(1), m.group(2), int(m.group(3)), int(m.group(4))
    if len(pad) != len(str(ln)) or lines[1] != pad + " " + BAR:
        return {"malformed": ctx}
    head = "%d %s " % (ln, BAR)
    if not lines[2].startswith(head):
        return {"malformed": ctx}
    echoed = lines[2][len(head):]
    m3 = re.match(r"^" + re.escape(pad + " " + BAR + " ") + r"( *)(\^+)$", lines[3])
    if not m3:
        return {"malformed": ctx}
    return {"path": path, "line": ln, "column": col, "echoed": echoed,
            "caretOffset": len(m3.group(1)), "caretCount": len(m3.group(2))}


def same_context(got, want):
    if got is None or want is None:
        return got is None and want is None
    return all(got.get(k) == want[k] for k in ("line", "column", "echoed", "caretOffset", "caretCount"))


# ------------------------------------------------------------------------------------------------
# stream B: injected errors

UNI_WORDS = ["\u4e2d\u6587", "\u00e9t\u00e9", "\U0001F600", "e\u0301", "\t", "x\ty", "\u00a0", "plain", "\U0001F600\u4e2d", "a b"]


def uni(rng, n=2):
    return "".join(rng.choice(UNI_WORDS) for _ in range(rng.randint(0, n)))


def context_lines(rng, tag):
    """valid items that do not interact with the injected error; names are unique by `tag`"""
    out = []
    for i in range(rng.randint(0, 3)):
        r = rng.random()
        if r < 0.3:
            out.append("# %s\n" % uni(rng, 3))
        elif r < 0.6:
            out.append("v%s%d := \"%s\" + '%s'\n" % (tag, i, uni(rng), uni(rng)))
        elif r < 0.9:
            ind = rng.choice(["\t", "  ", "    "])
            body = "".join("%secho %s\n" % (ind, uni(rng, 3).replace("{{", "")) for _ in range(rng.randint(1, 2)))
            out.append("r%s%d:\n%s" % (tag, i, body))
        else:
            out.append("\n")
    return "".join(out)


def inject(rng):
    """returns dict(prefix, token, suffix, kind): the error must point at `token`"""
    pre_line = rng.choice(["x := \"%s\" + ", "x := '%s' / ", "x := (\"%s\") + ", "export x := '%s' + "]) % uni(rng, 3)
    post_line = rng.choice(["", " + '%s'" % uni(rng), " # %s" % uni(rng, 2)])
    kind = rng.choice(["unknown-start", "unterminated-string", "unterminated-backtick", "invalid-escape", "invalid-escape-multiline",
                       "undefined-variable", "undefined-in-body", "unknown-function", "unknown-dependency", "duplicate-recipe",
                       "duplicate-variable", "unexpected-token", "unknown-setting", "unknown-attribute", "arity", "mismatched",
                       "unpaired-cr", "mixed-whitespace", "unexpected-closing",
                       "duplicate-parameter", "duplicate-set", "duplicate-unexport", "duplicate-attribute", "expected-keyword",
                       "attribute-arity", "parameter-after-variadic", "required-after-default", "dependency-arity",
                       "backtick-shebang", "unterminated-interpolation", "unicode-range", "unicode-empty", "unicode-length",
                       "unicode-delimiter", "unicode-character", "unicode-unterminated", "shell-expansion",
                       "unexpected-character", "include", "inconsistent-whitespace",
                       "extraneous-attributes", "circular-recipe", "circular-variable", "export-unexported", "extra-leading-whitespace",
                       "invalid-attribute", "shebang-and-script", "no-cd-and-working-directory", "exit-message-both",
                       "unknown-alias-target"])
    if kind == "unknown-start":
        return dict(kind=kind, head=pre_line, token=rng.choice(["~", "\u00e9", "\u4e2d", "\U0001F600", "%", "^", ";", "\u00a0"]), tail=" 'a'" + post_line, error="UnknownStartOfToken")
    if kind == "unterminated-string":
        d = rng.choice(['"', "'", '"""', "'''"])
        return dict(kind=kind, head=pre_line, token=d, tail="abc %s" % uni(rng).replace('"', "").replace("'", ""), rest_raw=True, error="UnterminatedString")
    if kind == "unterminated-backtick":
        d = rng.choice(["`", "```"])
        return dict(kind=kind, head=pre_line, token=d, tail="echo %s" % uni(rng), rest_raw=True, error="UnterminatedBacktick")
    if kind == "invalid-escape":
        return dict(kind=kind, head=pre_line, token="\"%s\\q%s\"" % (uni(rng), uni(rng)), tail=post_line, error="InvalidEscapeSequence")
    if kind == "invalid-escape-multiline":
        return dict(kind=kind, head=pre_line, token="\"%s\n%s\\q%s\n z\"" % (uni(rng), uni(rng), uni(rng)), tail=post_line, error="InvalidEscapeSequence")
    if kind == "undefined-variable":
        return dict(kind=kind, head=pre_line, token="undefined_v", tail=post_line, error="UndefinedVariable")
    if kind == "undefined-in-body":
        ind = rng.choice(["\t", "  "])
        return dict(kind=kind, head="rr:\n%secho %s {{" % (ind, uni(rng, 3)), token="undefined_v", tail="}} %s" % uni(rng), error="UndefinedVariable")
    if kind == "unknown-function":
        return dict(kind=kind, head=pre_line, token="nofn", tail="('a')" + post_line, error="UnknownFunction")
    if kind == "unknown-dependency":
        return dict(kind=kind, head="rr p='%s': " % uni(rng), token="nodep", tail="", error="UnknownDependency")
    if kind == "duplicate-recipe":
        return dict(kind=kind, head="rr:\n\techo %s\n" % uni(rng), token="rr", tail=":\n\techo 2", error="DuplicateRecipe")
    if kind == "duplicate-variable":
        return dict(kind=kind, head="dv := '%s'\n" % uni(rng), token="dv", tail=" := '2'", error="DuplicateVariable")
    if kind == "unexpected-token":
        return dict(kind=kind, head=pre_line, token=",", tail=" 'a'", error="UnexpectedToken")
    if kind == "unknown-setting":
        return dict(kind=kind, head="set ", token="nosuch", tail=" := 'a'", error="UnknownSetting")
    if kind == "unknown-attribute":
        return dict(kind=kind, head="[", token="nosuch", tail="]\nrr:\n\techo", error="UnknownAttribute")
    if kind == "arity":
        return dict(kind=kind, head=pre_line, token="uppercase", tail="('a', 'b')" + post_line, error="FunctionArgumentCountMismatch")
    if kind == "mismatched":
        return dict(kind=kind, head=pre_line + "(", token="]", tail="", error="MismatchedClosingDelimiter")
    if kind == "unexpected-closing":
        return dict(kind=kind, head=pre_line, token=rng.choice([")", "]", "}"]), tail="", error="UnexpectedClosingDelimiter")
    if kind == "unpaired-cr":
        return dict(kind=kind, head="x := '%s' " % uni(rng), token="\r", tail="y", error="UnpairedCarriageReturn")
    if kind == "mixed-whitespace":
        return dict(kind=kind, head="rr:\n", token=rng.choice([" \t", "\t ", "  \t "]), tail="echo %s" % uni(rng), error="MixedLeadingWhitespace")
    if kind == "duplicate-parameter":
        return dict(kind=kind, head="rr a b=\"%s\" " % uni(rng).replace('"', ""), token="a", tail="='z':\n\techo", error="DuplicateParameter")
    if kind == "duplicate-set":
        return dict(kind=kind, head="set quiet\n# %s\nset " % uni(rng), token="quiet", tail="", error="DuplicateSet")
    if kind == "duplicate-unexport":
        return dict(kind=kind, head="unexport AA\n# %s\nunexport " % uni(rng), token="AA", tail="", error="DuplicateUnexport")
    if kind == "duplicate-attribute":
        return dict(kind=kind, head="[private]\n[", token="private", tail="]\nrr:\n\techo", error="DuplicateAttribute")
    if kind == "expected-keyword":
        return dict(kind=kind, head="set quiet := ", token="maybe", tail="", error="ExpectedKeyword")
    if kind == "attribute-arity":
        return dict(kind=kind, head="[", token="group", tail="]\nrr:\n\techo", error="AttributeArgumentCountMismatch")
    if kind == "parameter-after-variadic":
        return dict(kind=kind, head="rr a='%s' +b " % uni(rng), token="c", tail=":\n\techo", error="ParameterFollowsVariadicParameter")
    if kind == "required-after-default":
        return dict(kind=kind, head="rr a='%s' " % uni(rng), token="b", tail=":\n\techo", error="RequiredParameterFollowsDefaultParameter")
    if kind == "dependency-arity":
        return dict(kind=kind, head="tt a:\n\techo %s\nrr: (" % uni(rng), token="tt", tail=")", error="DependencyArgumentCountMismatch")
    if kind == "backtick-shebang":
        return dict(kind=kind, head=pre_line, token="`#!/bin/sh %s`" % uni(rng).replace("`", ""), tail=post_line, error="BacktickShebang")
    if kind == "unterminated-interpolation":
        ind = rng.choice(["\t", "  "])
        return dict(kind=kind, head="rr:\n%secho %s " % (ind, uni(rng, 3)), token="{{", tail=" 'a' + %s" % rng.choice(["'b'", "x"]), error="UnterminatedInterpolation")
    if kind.startswith("unicode-"):
        esc = {"unicode-range": "\\u{110000}", "unicode-empty": "\\u{}", "unicode-length": "\\u{1234567}", "unicode-delimiter": "\\ux",
               "unicode-character": "\\u{zz}", "unicode-unterminated": "\\u{12"}[kind]
        err = {"unicode-range": "UnicodeEscapeRange", "unicode-empty": "UnicodeEscapeEmpty", "unicode-length": "UnicodeEscapeLength",
               "unicode-delimiter": "UnicodeEscapeDelimiter", "unicode-character": "UnicodeEscapeCharacter",
               "unicode-unterminated": "UnicodeEscapeUnterminated"}[kind]
        return dict(kind=kind, head=pre_line, token="\"%s%s%s\"" % (uni(rng), esc, uni(rng) if kind != "unicode-unterminated" else ""), tail=post_line, error=err)
    if kind == "shell-expansion":
        return dict(kind=kind, head=pre_line + "x", token="'$C12_SURELY_UNSET_%s'" % rng.choice(["A", "B"]), tail=post_line, error="ShellExpansion")
    if kind == "unexpected-character":
        return dict(kind=kind, head=pre_line + "!", token=rng.choice(["x", "\u00e9", "\u4e2d", " "]), tail="'a'", error="UnexpectedCharacter")
    if kind == "include":
        return dict(kind=kind, head="", token="!", tail="include 'f'", error="Include")
    if kind == "inconsistent-whitespace":
        return dict(kind=kind, head="rr:\n\techo %s\n" % uni(rng), token="  ", tail="echo", error="InconsistentLeadingWhitespace")
    if kind == "extraneous-attributes":
        # a block of one to three attribute lines in front of something that cannot carry attributes: the block's first `[`
        more = "".join(rng.sample(["[group('%s')]\n" % uni(rng).replace("'", ""), "[no-cd]\n", "[doc('%s')]\n" % uni(rng).replace("'", "")], rng.randint(0, 2)))
        after = rng.choice(["set quiet", "# %s" % uni(rng), "", "unexport ZZ"])
        return dict(kind=kind, head="", token="[", tail="private]\n" + more + after, error="ExtraneousAttributes")
    if kind == "circular-recipe":
        return dict(kind=kind, head="rr a='%s': " % uni(rng).replace("'", ""), token="rr", tail="\n\techo", error="CircularRecipeDependency")
    if kind == "circular-variable":
        return dict(kind=kind, head="", token="vv", tail=" := '%s' + vv" % uni(rng).replace("'", ""), error="CircularVariableDependency")
    if kind == "export-unexported":
        return dict(kind=kind, head="unexport VV\n# %s\nexport " % uni(rng), token="VV", tail=" := 'x'", error="ExportUnexported")
    if kind == "extra-leading-whitespace":
        return dict(kind=kind, head="rr:\n\techo %s\n\t" % uni(rng), token=" echo b", tail="", error="ExtraLeadingWhitespace")
    if kind == "invalid-attribute":
        return dict(kind=kind, head="[extension('.%s')]\n" % rng.choice(["x", "py"]), token="rr", tail=":\n\techo", error="InvalidAttribute")
    if kind == "shebang-and-script":
        return dict(kind=kind, head="[script]\n", token="rr", tail=":\n\t#!/bin/sh\n\techo", error="ShebangAndScriptAttribute")
    if kind == "no-cd-and-working-directory":
        return dict(kind=kind, head="[no-cd]\n[working-directory('%s')]\n" % uni(rng).replace("'", ""), token="rr", tail=":\n\techo", error="NoCdAndWorkingDirectoryAttribute")
    if kind == "exit-message-both":
        return dict(kind=kind, head="[exit-message]\n[no-exit-message]\n", token="rr", tail=":\n\techo", error="ExitMessageAndNoExitMessageAttribute")
    if kind == "unknown-alias-target":
        return dict(kind=kind, head="alias ", token="aa", tail=" := nosuch", error="UnknownAliasTarget")
    raise AssertionError(kind)


def build_injected(seed, index):
    rng = C.case_rng(seed, index, "c12")
    inj = inject(rng)
    before = context_lines(rng, "a")
    after = "" if inj.get("rest_raw") else "\n" + context_lines(rng, "b")
    eol = rng.choice(["\n", "\n", "\r\n"])
    prefix = before + inj["head"]
    suffix = inj["tail"] + after
    if not suffix.endswith("\n") and rng.random() < 0.7 and not inj.get("rest_raw"):
        suffix += "\n"
    if eol == "\r\n":
        # CRLF everywhere except inside the token itself
        prefix = prefix.replace("\n", "\r\n")
        suffix = suffix.replace("\n", "\r\n")
        if inj["kind"] == "unpaired-cr":
            pass
    src = prefix + inj["token"] + suffix
    return {"index": index, "kind": inj["kind"], "error": inj["error"], "prefix": prefix, "token": inj["token"], "suffix": suffix,
            "src": src, "eol": eol}


# ------------------------------------------------------------------------------------------------

def sources(tier, seed):
    rng = random.Random(seed)
    srcs = list(G.exhaustive(G.PIECES, 2))
    srcs += list(G.exhaustive(G.CORE, 3 if tier == "quick" else 4))
    n_random = 20000 if tier == "quick" else 200000
    srcs += [G.random_source(rng) for _ in range(n_random)]
    repo = G.repo_sources()
    per = 20 if tier == "quick" else 150
    for s in repo:
        srcs.append(s)
        cur = s
        for k in range(per):
            cur = G.mutate(rng, cur if rng.random() < 0.5 else s)
            srcs.append(cur)
    return srcs, len(repo)


def run(report):
    tier = report.tier
    thorough = tier == "thorough"
    C.build_jv()
    C.build_just()
    C.proof_stage(report, "C12", thorough=thorough)
    jv = C.Jv()
    dr = C.Driver()
    widths = Widths(jv)

    # ---- stream A -------------------------------------------------------------------------------
    srcs, nrepo = sources(tier, report.seed)
    widths.learn(srcs)
    lex_impl = jv.pbatch([{"op": "lex", "src": s} for s in srcs])
    lex_model = dr.pbatch([{"op": "lex", "src": s} for s in srcs])
    comp = jv.pbatch([{"op": "compile", "src": s} for s in srcs])
    kinds = {}
    lex_mismatch = 0
    for s, a, b in zip(srcs, lex_impl, lex_model):
        if "tokens" in a:
            k = "ok"
            same = a["tokens"] == b.get("tokens")
        elif "error" in a:
            k = a["error"]
            same = a["error"] == b.get("error") and a["token"] == b.get("token")
        else:
            k = "crash"
            same = True     # panics / aborts are C11's business; the model cannot agree with a crash
        kinds[k] = kinds.get(k, 0) + 1
        if not same:
            lex_mismatch += 1
            # is the implementation's answer wrong by the statement?  check its coordinates against the text
            bad_impl = None
            toks = a.get("tokens") or ([a["token"]] if "token" in a else [])
            bs = s.encode("utf-8")
            for t in toks:
                pre = bs[:t["offset"]]
                if t["offset"] + t["length"] > len(bs) or t["line"] != pre.count(b"\n") or t["column"] != len(pre) - (pre.rfind(b"\n") + 1):
                    bad_impl = t
                    break
            if bad_impl is not None:
                report.failure("c12-token-coordinates", "a token's line/column do not match its offset in the text",
                               {"src": s, "token": bad_impl, "op": "lex"})
            else:
                report.failure("c12-lexer-model", "Lean lexer model and Lexer::lex disagree (coordinates of the implementation's tokens are consistent)",
                               {"correspondence": "lexer tokens (vlib/c12.py stream A)", "src": s, "impl": a, "model": b}, no_input=True)
    # contexts of every compile error
    ctx_reqs = []
    ctx_cases = []
    err_kinds = {}
    for s, r in zip(srcs, comp):
        if "error" in r and "token" in r:
            err_kinds[r["error"]] = err_kinds.get(r["error"], 0) + 1
            ctx_reqs.append({"op": "context", "src": s, "token": r["token"], "widths": widths.pairs(s)})
            ctx_cases.append((s, r))
    ctx_model = dr.pbatch(ctx_reqs)
    ctx_mismatch = 0
    none_printed = 0
    for (s, r), m in zip(ctx_cases, ctx_model):
        printed = r["rendered"][len(r["message"]) + 1:]
        got = parse_context(printed)
        if got is None:
            none_printed += 1
        t = r["token"]
        want = expected_context(s, t["offset"], t["length"], widths)
        bs = s.encode("utf-8")
        pre = bs[:t["offset"]]
        coords_ok = t["line"] == pre.count(b"\n") and t["column"] == len(pre) - (pre.rfind(b"\n") + 1) and t["offset"] + t["length"] <= len(bs)
        if not coords_ok:
            report.failure("c12-token-coordinates", "the error token's line/column do not match its offset in the text",
                           {"src": s, "token": t, "error": r["error"], "op": "compile"})
            continue
        if got is not None and "malformed" in got:
            report.failure("c12-context-malformed", "the printed source context does not have the documented four-line shape",
                           {"src": s, "token": t, "printed": printed, "op": "compile"})
            continue
        if not same_context(got, want):
            report.failure("c12-context:%s" % r["error"], "printed context does not identify the reported token: got %r want %r" % (got, want),
                           {"src": s, "token": t, "printed": printed, "expected": want, "op": "compile"})
            continue
        if not same_context(m.get("context"), got):
            ctx_mismatch += 1
            report.failure("c12-context-model", "Lean context model and Token's ColorDisplay disagree (the implementation matches the statement oracle)",
                           {"correspondence": "rendered context (vlib/c12.py stream A)", "src": s, "token": t, "impl": got, "model": m}, no_input=True)

    # ---- stream B -------------------------------------------------------------------------------
    n_inj = 3000 if tier == "quick" else 40000
    cases = [build_injected(report.seed, i) for i in range(n_inj)]
    widths.learn([c["src"] for c in cases])
    res = jv.pbatch([{"op": "compile", "src": c["src"]} for c in cases])
    inj_kinds = {}
    eols = {}
    for c, r in zip(cases, res):
        inj_kinds[c["kind"]] = inj_kinds.get(c["kind"], 0) + 1
        eols[c["eol"]] = eols.get(c["eol"], 0) + 1
        replay = {"src": c["src"], "kind": c["kind"], "expected_token": c["token"], "op": "compile", "index": c["index"]}
        if r.get("error") != c["error"] and not (r.get("error") == "Redefinition" and c["error"].startswith("Duplicate")):
            report.failure("c12-generator:%s" % c["kind"], "the injected %s error was not the one reported: %r" % (c["error"], r.get("error") or r),
                           dict(replay, got=r), no_input=True)
            continue
        off = len(c["prefix"].encode("utf-8"))
        ln = len(c["token"].encode("utf-8"))
        t = r["token"]
        # (a zero-length token at the right place is underlined with one caret, which identifies a one-byte token)
        if t["offset"] != off or (t["length"] != ln and not (t["length"] == 0 and ln == 1)):
            report.failure("c12-wrong-token:%s" % c["kind"], "the error does not point at the offending token: reported bytes %d+%d, offending token at %d+%d"
                           % (t["offset"], t["length"], off, ln), dict(replay, got=t))
            continue
        want = expected_context(c["src"], off, ln, widths)
        got = parse_context(r["rendered"][len(r["message"]) + 1:])
        if not same_context(got, want):
            report.failure("c12-context:%s" % c["kind"], "file:line:column / echoed line / carets do not identify the offending token: got %r want %r" % (got, want),
                           dict(replay, printed=r["rendered"], expected=want))

    # ---- file attribution through imports and modules (real binary) -----------------------------
    n_files = 120 if tier == "quick" else 1500
    fcases = [build_injected(report.seed + 1, i) for i in range(n_files)]
    widths.learn([c["src"] for c in fcases])

    def run_file_case(c):
        rng = C.case_rng(report.seed, c["index"], "c12f")
        mode = rng.choice(["root", "import", "mod", "import-in-mod", "mod-in-dir", "outside", "mod-outside"])
        with C.scratch("c12") as d:
            d = os.path.realpath(d)
            files = {}
            cwd = d
            if mode == "root":
                files["justfile"] = c["src"]
                want_path = "justfile"
            elif mode == "import":
                files["justfile"] = "import 'sub/imp.just'\nok:\n\techo ok\n"
                files["sub/imp.just"] = c["src"]
                want_path = "sub/imp.just"
            elif mode == "mod":
                files["justfile"] = "mod m 'sub/m.just'\nok:\n\techo ok\n"
                files["sub/m.just"] = c["src"]
                want_path = "sub/m.just"
            elif mode == "import-in-mod":
                files["justfile"] = "mod m 'sub/m.just'\nok:\n\techo ok\n"
                files["sub/m.just"] = "import 'deep/i.just'\n"
                files["sub/deep/i.just"] = c["src"]
                want_path = "sub/deep/i.just"
            elif mode == "outside":
                # a file outside the root justfile's directory is named by its whole path
                files["proj/justfile"] = "import '../other/x.just'\nok:\n\techo ok\n"
                files["other/x.just"] = c["src"]
                want_path = os.path.join(d, "other/x.just")
                cwd = os.path.join(d, "proj")
            elif mode == "mod-outside":
                files["proj/justfile"] = "mod m '../other/sub/m.just'\nok:\n\techo ok\n"
                files["other/sub/m.just"] = c["src"]
                want_path = os.path.join(d, "other/sub/m.just")
                cwd = os.path.join(d, "proj")
            else:
                files["justfile"] = "mod m\nok:\n\techo ok\n"
                files["m/mod.just"] = c["src"]
                want_path = "m/mod.just"
            for rel, text in files.items():
                p = os.path.join(d, rel)
                os.makedirs(os.path.dirname(p), exist_ok=True)
                with open(p, "wb") as f:
                    f.write(text.encode("utf-8"))
            rc, out, err = C.run_just(["--color", "never", "--list"], cwd)
            comps = lambda p_: [x for x in p_.split("/") if x]
            return mode, want_path, rc, err.decode("utf-8", "replace").replace(d, "<D>"), {"op": "display", "root": comps(cwd), "path": comps(want_path if want_path.startswith("/") else os.path.join(cwd, want_path))}, d

    fres = C.pmap(run_file_case, fcases)
    dmodel = C.Driver().pbatch([x[4] for x in fres], chunk=2000)

    modes = {}
    for c, (mode, want_path, rc, err, dreq, dd), dm in zip(fcases, fres, dmodel):
        modes[mode] = modes.get(mode, 0) + 1
        want_path = want_path.replace(dd, "<D>")
        replay = {"src": c["src"], "kind": c["kind"], "mode": mode, "expected_token": c["token"], "op": "files", "index": c["index"]}
        off = len(c["prefix"].encode("utf-8"))
        ln = len(c["token"].encode("utf-8"))
        want = expected_context(c["src"], off, ln, widths)
        i = err.find("\n")
        got = parse_context(err[i + 1:].rstrip("\n")) if i >= 0 else None
        # multi-line messages: find the context start instead
        m = re.search(r"^ *" + ARROW, err, re.M)
        if m:
            got = parse_context(err[m.start():].rstrip("\n"))
        if rc == 0 or got is None and want is not None or (got is not None and "malformed" in got):
            report.failure("c12-files-shape:%s" % c["kind"], "unexpected output for an erroneous %s file: rc=%r stderr=%r" % (mode, rc, err[-300:]), replay)
            continue
        if got is not None and got.get("path") != want_path:
            report.failure("c12-wrong-file:%s" % mode, "the diagnostic names %r, the token is in %r" % (got.get("path"), want_path), dict(replay, stderr=err))
            continue
        if got is not None and dm["shown"].replace(dd, "<D>") != got.get("path"):
            report.failure("c12-model-file-name", "the diagnostic names %r, Just.Loader.display gives %r" % (got.get("path"), dm["shown"]),
                           dict(replay, correspondence="C12 file names vs Just.Loader.display", model=dm, impl=got.get("path")), no_input=True)
            continue
        if not same_context(got, want):
            report.failure("c12-context:%s" % c["kind"], "file:line:column / echoed line / carets do not identify the offending token: got %r want %r" % (got, want),
                           dict(replay, stderr=err, expected=want))

    report.coverage.update({
        "inputs": len(srcs) + len(cases) + len(fcases),
        "lexer_correspondence_sources": len(srcs),
        "lexer_outcomes": kinds,
        "lexer_model_mismatches": lex_mismatch,
        "compile_errors_rendered": len(ctx_cases),
        "compile_error_kinds": err_kinds,
        "context_model_mismatches": ctx_mismatch,
        "contexts_with_nothing_printed": none_printed,
        "injected_cases": len(cases),
        "injected_kinds": inj_kinds,
        "injected_line_endings": eols,
        "file_cases": len(fcases),
        "file_modes": modes,
        "repo_justfiles_mutated": nrepo,
    })
    report.assumptions += [
        "display widths are the unicode-width crate's (read through jv); the theorems hold for any width function",
        "the parser and analyzer are not modelled: that their error tokens are the offending ones is decided by the injected-error oracle (19 kinds), not by a theorem",
        "colour escape sequences are not covered (checks run with colour off)",
    ]
    C.finish(report)


def replay(report, path):
    body = json.load(open(path))
    rp = body["replay"]
    C.build_jv()
    jv = C.Jv()
    widths = Widths(jv)
    widths.learn([rp.get("src", "")])
    report.coverage.update({"obligations": 1, "discharged": 1, "checker_cmd": "replay", "trusted_base": []})
    r = jv.batch([{"op": "compile", "src": rp["src"]}])[0]
    print(json.dumps(r, ensure_ascii=False)[:2000])
    if "token" in r:
        t = r["token"]
        want = expected_context(rp["src"], t["offset"], t["length"], widths)
        got = parse_context(r["rendered"][len(r["message"]) + 1:])
        if not same_context(got, want):
            report.failure(body["signature"], "replay still fails: got %r want %r" % (got, want), rp)
    C.finish(report)
