"""C20 - non-executing commands are deterministic."""
import json
import os
import re
import subprocess

from . import common as C

# Committed classification of every hash-based collection in non-test code (file, identifier, role).
# A new or changed occurrence breaks the correspondence: the model's claim "everything that reaches the
# output is ordered" is then no longer tied to the source.
CLASSIFICATION = {
    "src/analyzer.rs": {"HashMap": 6, "HashSet": 1, "roles": "asts/paths: lookup only; definitions: membership; imports: membership"},
    "src/command_ext.rs": {"HashMap": 0, "HashSet": 0, "roles": ""},
    "src/compilation.rs": {"HashMap": 2, "HashSet": 0, "roles": "asts/srcs: lookup by path"},
    "src/compiler.rs": {"HashMap": 7, "HashSet": 0, "roles": "asts/paths/srcs: insert + lookup by path"},
    "src/constants.rs": {"HashMap": 2, "HashSet": 0, "roles": "constants(): iterated only into an ordered Table (Scope::root)"},
    "src/function.rs": {"HashMap": 0, "HashSet": 2, "roles": "choose(): duplicate-character membership"},
    "src/justfile.rs": {"HashMap": 0, "HashSet": 1, "roles": "public_groups(): seen-set membership while retaining an ordered list"},
    "src/lib.rs": {"HashMap": 1, "HashSet": 1, "roles": "prelude import"},
    "src/testing.rs": {"HashMap": 4, "HashSet": 0, "roles": "test support"},
    "src/verif.rs": {"HashMap": 4, "HashSet": 0, "roles": "verification hook (single-file compile)"},
}


def scan():
    out = {}
    src = os.path.join(C.REPO, "src")
    for root, _, files in os.walk(src):
        for fn in files:
            if not fn.endswith(".rs"):
                continue
            full = os.path.join(root, fn)
            rel = os.path.relpath(full, C.REPO)
            text = open(full, encoding="utf-8").read()
            # drop test modules
            text = re.split(r"#\[cfg\(test\)\]\s*mod tests", text)[0]
            hm = len(re.findall(r"\bHashMap\b", text))
            hs = len(re.findall(r"\bHashSet\b", text))
            if hm or hs:
                out[rel] = {"HashMap": hm, "HashSet": hs}
    return out


JUSTFILE = """set shell := ["{vsh}", "-c"]
set allow-duplicate-variables
set dotenv-filename := 'x.env'
set positional-arguments
set quiet

unexport UA
unexport UB
unexport UC
unexport UD

mod zeta
[group('mg1')]
[group('mg2')]
[group('mg3')]
mod alpha
mod mid

export ev := 'e'
vb := 'b' + ev
va := 'a'
vc := uppercase(va) / vb

alias ab := build
alias aa := alpha::ra
alias ac := clean

# doc of build
[group('g2')]
[group('g1')]
[group('g3')]
[no-cd]
[no-exit-message]
[private]
build target='x' +rest='y': clean (lint target) && (clean)
  [T] {{{{target}}}} {{{{rest}}}}

[group('g1')]
[confirm('sure?')]
[linux]
[unix]
clean *$flags:
  @-[C] {{{{flags}}}}

[group('g3')]
[doc('lint it')]
lint what:
  [L] {{{{what}}}} {{{{vc}}}}

_hidden a b='1' c='2':
  [H]
"""

MOD = """set shell := ["{vsh}", "-c"]
unexport MX
unexport MY
unexport MZ
x := '{name}'
[group('{name}g2')]
[group('{name}g1')]
ra p='d':
  [M-{name}] {{{{p}}}}
rb:
  [M2-{name}]
rc: ra rb
  [M3-{name}]
"""

UNSTABLE2 = """x := 'a' && 'b'
y := which('sh')
r:
  [T]
"""

COMMANDS = [
    ["--dump"], ["--dump", "--dump-format", "json"], ["--list"], ["--list", "--unsorted"], ["--list", "alpha"], ["--summary"],
    ["--summary", "--unsorted"], ["--groups"], ["--groups", "--unsorted"], ["--variables"], ["--show", "build"], ["--show", "ab"],
    ["--evaluate"], ["--evaluate", "vc"], ["--dry-run", "build", "t", "u"], ["--dry-run", "alpha::rc"], ["--unstable", "--fmt", "--check"],
    ["nosuchrecipe"], ["--show", "nosuch"], ["build", "x=y"], ["--nosuchflag"], ["zz=1", "build"], ["--list", "nosuchmodule"],
    ["--dry-run", "lint"],
]


def run_case(arg):
    name, files, argv, reps = arg
    with C.scratch("c20") as d:
        for f, t in files.items():
            open(os.path.join(d, f), "w").write(t)
        env = dict(C.BASE_ENV)
        env.update({"HOME": d, "TMPDIR": d, "VSH_LOG": os.path.join(d, "vsh.log")})
        outs = []
        for _ in range(reps):
            p = subprocess.run([C.JUST] + argv, cwd=d, env=env, stdin=subprocess.DEVNULL, stdout=subprocess.PIPE, stderr=subprocess.PIPE)
            outs.append((p.returncode, p.stdout.replace(d.encode(), b"<D>"), p.stderr.replace(d.encode(), b"<D>")))
        spawned = os.path.exists(os.path.join(d, "vsh.log"))
        return {"name": name, "argv": argv, "outs": outs, "spawned": spawned}


def variants(rng, n):
    """programs with several members in every collection; names permuted per variant"""
    out = []
    for i in range(n):
        names = ["UA", "UB", "UC", "UD", "UE", "UF"]
        rng.shuffle(names)
        jf = JUSTFILE.format(vsh=C.VSH)
        for k, old in enumerate(["UA", "UB", "UC", "UD"]):
            jf = jf.replace("unexport %s\n" % old, "unexport N%d_%s\n" % (i, names[k]))
        files = {"justfile": jf}
        for m in ("zeta", "alpha", "mid"):
            files[m + ".just"] = MOD.format(vsh=C.VSH, name=m)
        out.append(("full-%d" % i, files))
    out.append(("two-unstable-features", {"justfile": UNSTABLE2}))
    out.append(("compile-error-duplicate", {"justfile": "a:\n  x\nb:\n  y\na:\n  z\nb:\n  w\n"}))
    out.append(("compile-error-undefined", {"justfile": "x := b + a + c\n"}))
    out.append(("compile-error-cycle", {"justfile": "c := a\na := b\nb := c\n"}))
    # several errors of one kind in one file: which one is reported must not depend on the run
    names = ["zeta", "alpha", "mid", "omega", "beta", "kappa", "delta"]
    out.append(("compile-error-alias-targets", {"justfile": "".join("alias %s := no_%s\n" % (n, n) for n in names) + "r:\n  [T]\n"}))
    out.append(("compile-error-unknown-dependencies", {"justfile": "".join("%s: no_%s\n  [T]\n" % (n, n) for n in names)}))
    out.append(("compile-error-undefined-in-recipes", {"justfile": "".join("%s:\n  [T] {{ no_%s }}\n" % (n, n) for n in names)}))
    out.append(("compile-error-undefined-in-assignments", {"justfile": "".join("%s := no_%s\n" % (n, n) for n in names)}))
    out.append(("compile-error-recipe-cycles", {"justfile": "".join("%s: %s\n  [T]\n" % (n, n) for n in names)}))
    out.append(("compile-error-dependency-arity", {"justfile": "t a:\n  [T]\n" + "".join("%s: (t)\n  [T]\n" % n for n in names)}))
    out.append(("compile-error-duplicate-kinds", {"justfile": "".join("alias %s := r\n%s:\n  [T]\n" % (n, n) for n in names) + "r:\n  [T]\n"}))
    out.append(("compile-error-unexport-export", {"justfile": "".join("unexport %s\nexport %s := 'x'\n" % (n.upper(), n.upper()) for n in names)}))
    out.append(("compile-error-modules-missing", {"justfile": "".join("mod %s\n" % n for n in names)}))
    # several attributes that are invalid for the item they stand on
    bad_attrs = "[no-cd]\n[linux]\n[no-exit-message]\n[unix]\n[positional-arguments]\n[no-quiet]\n"
    out.append(("compile-error-invalid-attributes-alias", {"justfile": "r:\n  [T]\n" + bad_attrs + "alias b := r\n"}))
    out.append(("compile-error-invalid-attributes-assignment", {"justfile": bad_attrs + "[confirm]\nx := 'a'\nr:\n  [T]\n"}))
    out.append(("compile-error-invalid-attributes-module", {"justfile": bad_attrs + "[confirm]\nmod zeta\n", "zeta.just": "r:\n  [T]\n"}))
    out.append(("compile-error-duplicate-attributes", {"justfile": "[no-cd]\n[linux]\n[unix]\n[linux]\n[no-cd]\n[unix]\nr:\n  [T]\n"}))
    out.append(("compile-error-conflicting-attributes", {"justfile": "[no-cd]\n[working-directory('x')]\n[exit-message]\n[no-exit-message]\nr:\n  [T]\n"}))
    return out


# ---- the order of every name-keyed table is a function of the set of names (Just.Determinism.build)

TABLE_NAMES = ["a", "b", "A", "B", "Z", "z", "_a", "_Z", "a-b", "a_b", "ab", "a1", "a-", "a_", "aB", "b0", "b-a", "ba", "zz", "z9"]


def table_case(rng):
    def pick(k):
        return rng.sample(TABLE_NAMES, k)
    recipes = pick(rng.randint(2, 6))
    variables = pick(rng.randint(2, 5))
    unexports = ["U" + x.upper().replace("-", "_") for x in pick(rng.randint(2, 4))]
    unexports = list(dict.fromkeys(unexports))
    taken = set(recipes)
    aliases = [x for x in pick(rng.randint(1, 4)) if x not in taken][:3]
    taken |= set(aliases)
    modules = [x for x in ["m-a", "m_a", "mA", "ma", "M"] if rng.random() < 0.5 and x not in taken][:3]
    items = [("recipe", x) for x in recipes] + [("variable", x) for x in variables] + [("unexport", x) for x in unexports] + \
            [("alias", x) for x in aliases] + [("module", x) for x in modules]
    rng.shuffle(items)
    text = ""
    for k, n in items:
        if k == "recipe":
            text += "%s:\n  echo\n\n" % n
        elif k == "variable":
            text += "%s := 'v'\n" % n
        elif k == "unexport":
            text += "unexport %s\n" % n
        elif k == "alias":
            text += "alias %s := %s\n" % (n, recipes[0])
        else:
            text += "mod %s 'sub.just'\n" % n
    return {"text": text, "order": {k: [n for kk, n in items if kk == k] for k in ("recipe", "variable", "unexport", "alias", "module")}}


def run_table_case(c):
    with C.scratch("c20t") as d:
        open(os.path.join(d, "justfile"), "w").write(c["text"])
        open(os.path.join(d, "sub.just"), "w").write("s:\n  echo\n")
        env = dict(C.BASE_ENV, HOME=d)
        p = subprocess.run([C.JUST, "--dump", "--dump-format", "json"], cwd=d, env=env, stdin=subprocess.DEVNULL, stdout=subprocess.PIPE, stderr=subprocess.PIPE)
        if p.returncode != 0:
            return {"error": p.stderr.decode("utf-8", "replace")[-300:]}
        j = json.loads(p.stdout)      # object_pairs order is the serializer's order
        q = subprocess.run([C.JUST, "--summary"], cwd=d, env=env, stdin=subprocess.DEVNULL, stdout=subprocess.PIPE, stderr=subprocess.PIPE)
        v = subprocess.run([C.JUST, "--variables"], cwd=d, env=env, stdin=subprocess.DEVNULL, stdout=subprocess.PIPE, stderr=subprocess.PIPE)
        return {"recipe": list(j["recipes"].keys()), "variable": list(j["assignments"].keys()), "unexport": list(j["unexports"]),
                "alias": list(j["aliases"].keys()), "module": list(j["modules"].keys()),
                "summary": [x for x in q.stdout.decode().split() if "::" not in x], "variables": v.stdout.decode().split()}


def run(report):
    tier = report.tier
    just, bt = C.build_just()
    C.proof_stage(report, "C20", thorough=(tier == "thorough"))
    # ---- the source scan: hash-based collections vs the committed classification
    found = scan()
    scan_diff = {}
    for f in sorted(set(found) | set(CLASSIFICATION)):
        got = found.get(f, {"HashMap": 0, "HashSet": 0})
        want = {k: CLASSIFICATION.get(f, {}).get(k, 0) for k in ("HashMap", "HashSet")}
        if got != want:
            scan_diff[f] = {"found": got, "classified": want}
    reps = 8
    rng = C.case_rng(report.seed, 0, "c20")
    progs = variants(rng, 4 if tier == "quick" else 60)
    cases = []
    for name, files in progs:
        cmds = COMMANDS if name.startswith("full") else [["--list"], ["--dump"], ["--dump", "--dump-format", "json"], ["--summary"],
                                                         ["--evaluate"], ["--variables"], ["--groups"], ["--show", "r"], ["--dry-run", "r"]]
        for argv in cmds:
            cases.append((name, files, argv, reps))
    # names that are equally close to several things just knows: whatever it suggests ("Did you mean ...?") or reports
    # must be the same on every run; twice the usual number of repetitions (a choice between two survives 16 runs with
    # probability 2^-15)
    near = {"justfile": 'set shell := ["%s", "-c"]\nmod alpha\nmod alphb\nva := "1"\nvb := "2"\nvc := "3"\nRAD := "r"\n\nbuild:\n  [T]\n\nbuilt:\n  [T]\n\nguild:\n  [T]\n\nalias bd := build\nalias bt := built\n' % C.VSH,
            "alpha.just": "ra:\n  [T]\n\nrb:\n  [T]\n", "alphb.just": "ra:\n  [T]\n"}
    NEAR = [["buils"], ["builx"], ["quild"], ["bx"], ["--show", "buils"], ["--show", "bx"], ["--evaluate", "vx"], ["--evaluate", "GREY"], ["--evaluate", "BG_GREY"],
            ["--evaluate", "HEXX"], ["--evaluate", "RED_"], ["--evaluate", "BOLE"], ["--evaluate", "RAE"], ["vx=1", "build"], ["--set", "vx", "1", "build"],
            ["alpha::rx"], ["alphx::ra"], ["--list", "alphx"], ["--show", "alpha::rx"], ["--dry-run", "buils"], ["--evaluate", "CLEAN"], ["--evaluate", "NORMAl"]]
    for argv in NEAR:
        cases.append(("near-miss", near, argv, 2 * reps))
    # settings whose use would bring in something random (a temporary directory) or absent (an interpreter, a shell, a
    # working directory): a dry run and the listings must not depend on them
    odd = {"justfile": 'set tempdir := "no/such/dir"\nset script-interpreter := ["no-such-interpreter", "-x"]\nset unstable\n\ns:\n  #!/no/such/interpreter\n  echo s\n\n'
                       '[script]\nt:\n  echo t\n\n[working-directory("no/such/wd")]\nw:\n  echo w\n\n[script("also-missing")]\nu:\n  echo u\n'}
    for argv in (["--dry-run", "s"], ["--dry-run", "t"], ["--dry-run", "u"], ["--dry-run", "w"], ["--dry-run", "s", "t", "u"], ["--list"], ["--dump"], ["--show", "t"],
                 ["--shell", "/no/such/shell", "--dry-run", "w"], ["--tempdir", "/no/such/tmp", "--dry-run", "s"]):
        cases.append(("odd-settings", odd, argv, reps))
    results = C.pmap(run_case, cases)
    stats = {"programs": len(progs), "commands": len(COMMANDS), "runs": sum(c[3] for c in cases), "repetitions": reps,
             "scan_files_with_hash_collections": len(found), "scan_differences": len(scan_diff)}
    distinct = set()
    samples = []
    nondet = 0
    for (name, files, argv, _), r in zip(cases, results):
        distinct.add(json.dumps([name, argv]))
        first = r["outs"][0]
        differing = [i for i, o in enumerate(r["outs"]) if o != first]
        if r["spawned"]:
            report.failure("c20-executed", "a non-executing command executed a user command", {"program": name, "argv": argv, "files": files})
            continue
        if differing:
            nondet += 1
            which = "stdout" if any(o[1] != first[1] for o in r["outs"]) else ("stderr" if any(o[2] != first[2] for o in r["outs"]) else "status")
            a, b = first, r["outs"][differing[0]]
            # locate the first differing JSON path / line for the signature
            where = ""
            if argv[:3] == ["--dump", "--dump-format", "json"]:
                try:
                    ja, jb = json.loads(a[1]), json.loads(b[1])
                    where = json_diff_path(ja, jb)
                except Exception:
                    where = "unparsable"
            else:
                la, lb = a[1 if which == "stdout" else 2].split(b"\n"), b[1 if which == "stdout" else 2].split(b"\n")
                for x, y in zip(la, lb):
                    if x != y:
                        where = re.sub(rb"N\d+_", b"", x)[:60].decode("utf-8", "replace")
                        break
            sig = "c20-nondeterministic:%s:%s:%s" % (" ".join(argv[:3]), which, re.sub(r"\d+", "#", where))
            report.failure(sig, "output differs between runs of the same command on the same files (%s, first difference at %s)" % (which, where),
                           {"program": name, "argv": argv, "files": files, "run_0": [first[0], first[1].decode("utf-8", "replace")[:1500], first[2].decode("utf-8", "replace")[:600]],
                            "run_k": [b[0], b[1].decode("utf-8", "replace")[:1500], b[2].decode("utf-8", "replace")[:600]], "differing_runs": differing})
            continue
        if len(samples) < 3 and argv == ["--groups"]:
            samples.append({"program": name, "argv": argv, "stdout": first[1].decode("utf-8", "replace"), "identical_runs": reps})
    # the suggestion of an "unknown recipe" error against Just.Determinism.suggestRecipe (edit distance computed here)
    def lev(a, b):
        prev = list(range(len(b) + 1))
        for i, ca in enumerate(a, 1):
            cur = [i]
            for j, cb in enumerate(b, 1):
                cur.append(min(prev[j] + 1, cur[j - 1] + 1, prev[j - 1] + (ca != cb)))
            prev = cur
        return prev[-1]
    sugg = [((name, files, argv, _), r) for (name, files, argv, _), r in zip(cases, results) if name == "near-miss" and len(argv) <= 2 and argv[-1] in ("buils", "builx", "quild", "bx")]
    sdrv = C.Driver()
    # (written in an order that is neither the table's nor the source's)
    sm = sdrv.batch([{"op": "suggest", "recipes": [[n, lev(argv[-1], n)] for n in ("guild", "build", "built")],
                      "aliases": [[n, lev(argv[-1], n)] for n in ("bt", "bd")]} for (_, _, argv, _), _ in sugg])
    for ((name, files, argv, _), r), m in zip(sugg, sm):
        got = re.search(rb"Did you mean `([^`]*)`", r["outs"][0][2])
        got = got.group(1).decode() if got else None
        stats["suggestions_vs_model"] = stats.get("suggestions_vs_model", 0) + 1
        if got != m["suggestion"]:
            report.failure("c20-model-suggestion", "`just %s` suggests %r, Just.Determinism.suggestRecipe gives %r" % (" ".join(argv), got, m["suggestion"]),
                           {"correspondence": "C20 suggestion vs Just.Determinism.suggestRecipe", "files": files, "argv": argv, "model": m, "impl": got}, no_input=True)
    # the order of every table in the dump and the listings: sorted by name, whatever the source order (model: build)
    drv = C.Driver()
    ntab = 150 if tier == "quick" else 3000
    tcases = [table_case(C.case_rng(report.seed, i, "c20-table")) for i in range(ntab)]
    tres = C.pmap(run_table_case, tcases)
    kinds = ("recipe", "variable", "unexport", "alias", "module")
    tmod = drv.pbatch([{"op": "table", "keys": c["order"][k]} for c in tcases for k in kinds], chunk=5000)
    stats["table_programs"] = ntab
    stats["tables_compared"] = 0
    for i, (c, r) in enumerate(zip(tcases, tres)):
        replay = {"justfile": c["text"], "files": {"sub.just": "s:\n  echo\n"}, "argv": ["--dump", "--dump-format", "json"], "observed": r}
        if "error" in r:
            report.failure("c20-table-run", "a valid justfile was rejected: " + r["error"][-150:], replay)
            continue
        for kx, k in enumerate(kinds):
            want = sorted(c["order"][k], key=lambda x: x.encode("utf-8"))     # the statement: a function of the SET of names
            m = tmod[i * len(kinds) + kx]
            if "fatal" in m:
                raise C.BuildError("model driver: " + m["fatal"])
            stats["tables_compared"] += 1
            public = [x for x in want if not x.startswith("_")]      # --summary and --variables list the public names
            if r[k] != want or (k == "recipe" and r["summary"] != public) or (k == "variable" and r["variables"] != public):
                report.failure("c20-table-order:%s" % k, "the %s table is not shown in name order (it then depends on the order of definition): %s" % (k, r[k]),
                               dict(replay, expected=want))
                break
            if m["order"] != r[k]:
                report.failure("c20-model-table", "Just.Determinism.build orders the keys differently from the implementation",
                               dict(replay, correspondence="C20 table order vs Just.Determinism.build", model=m, table=k), no_input=True)
                break
    if scan_diff and not report.violations:
        report.failure("c20-scan", "hash-based collections in the source differ from the committed classification; repeated runs found no difference",
                       {"correspondence": "HashMap/HashSet scan of /repo/src vs vlib/c20.py CLASSIFICATION", "differences": scan_diff}, no_input=True)
    elif scan_diff:
        stats["scan_diff"] = scan_diff
    report.coverage.update({
        "evaluations": len(cases) * reps + ntab,
        "distinct_nontrivial": len(distinct),
        "rule": "justfiles with >=3 members in every collection (recipes, aliases, variables, settings, 4 unexports with per-variant names, recipe and module groups, modules, attributes, parameters) + justfiles with two unstable features / compile errors x %d non-executing command lines (incl. usage and unknown-recipe errors) x %d fresh processes each (hash seeds differ per process); plus random justfiles whose recipes, variables, unexports, aliases and modules (names chosen to separate byte order from other orders) are written in random order: every table of the dump, --summary and --variables against name order and against Just.Determinism.build; plus a scan of every HashMap/HashSet in non-test source against a committed classification; plus 22 command lines that name something equally close to several recipes, aliases, variables, constants or modules (suggestions), 16 runs each; plus dry runs and listings of script recipes under an unusable tempdir, interpreter, shell and working directory; distinct = distinct (program, command)" % (len(COMMANDS), reps),
        "samples": samples,
        "traces_validated_against_impl": len(cases),
        "stats": stats,
        "build_s": round(bt, 1),
    })
    report.assumptions += [
        "a 4-element order survives 8 runs by chance with probability 24^-7; determinism of std and the absence of other entropy sources is established by the scan and the repetition, not by proof",
        "absolute scratch paths are normalised before comparing",
    ]


def json_diff_path(a, b, path=""):
    if type(a) != type(b):
        return path
    if isinstance(a, dict):
        for k in sorted(set(a) | set(b)):
            if a.get(k) != b.get(k):
                return json_diff_path(a.get(k), b.get(k), path + "." + k)
        return path
    if isinstance(a, list):
        if sorted(map(json.dumps, a)) == sorted(map(json.dumps, b)):
            return path + "[order]"
        for i, (x, y) in enumerate(zip(a, b)):
            if x != y:
                return json_diff_path(x, y, path + "[%d]" % i)
        return path
    return path


def replay(report, path):
    body = json.load(open(path))
    C.build_just()
    rp = body["replay"]
    if "files" in rp:
        r = run_case(("replay", rp["files"], rp["argv"], 12))
        n = len(set(r["outs"]))
        print(json.dumps({"distinct_outputs_in_12_runs": n}))
        if n > 1:
            report.failure(body["signature"], "replay still fails", rp)
    report.coverage.update({"obligations": 1, "discharged": 1, "checker_cmd": "replay", "trusted_base": []})
