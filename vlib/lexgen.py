"""Justfile source generators over the token alphabet (shared by C11 and C12).

Three streams:
  * exhaustive: all concatenations of up to k pieces of PIECES
  * random: longer random concatenations biased towards line structure (headers, bodies, indentation)
  * mutated: the repository's own justfiles (justfile, tests' embedded ones are not parsed; we use
    /repo/justfile, /repo/examples/*.just and the README's code blocks) with random splices
"""
import itertools
import os
import re

from . import common as C

PIECES = [
    "a", "b1", "x-y", "_", "export", "set", "mod", "import", "alias", "if", "else", "shell",
    ":", ":=", "::", "=", "==", "=~", "!=", "!~", "!", "!include",
    "\n", "\r\n", "\r", " ", "  ", "\t", "    ",
    "{{", "}}", "{{{{", "{", "}", "(", ")", "[", "]",
    "'", "\"", "'''", "\"\"\"", "`", "```", "\\", "\\n", "\\\n", "\\\r\n", "\\u{", "#", "#!", "#!/bin/sh",
    "&&", "&", "||", "|", "@", "$", "*", "+", ",", "/", "?", "~", "-", "0", "%", ";", ".", "<", ">", "^",
    "\u00e9", "\u4e2d", "\U0001F600", "\ufeff", "\u0301", "\u00a0", "\x0c", "\x00", "\x7f",
]

# the small alphabet used for deeper exhaustive enumeration
CORE = ["a", ":", ":=", "\n", "\r\n", " ", "\t", "{{", "}}", "{{{{", "(", ")", "'", "\"", "`", "\\", "#", "\u00e9", "@", "=", "!", "["]


def exhaustive(alphabet, k):
    for n in range(0, k + 1):
        for combo in itertools.product(alphabet, repeat=n):
            yield "".join(combo)


LINE_STARTS = ["", "", "", " ", "  ", "\t", "    ", "  \t", "\t  ", "   "]
HEADERS = ["a:", "b x y='d':", "c *z: a", "@d +v:", "[private]\ne:", "[script('sh')]\nf:", "g $p=`echo`: (b '1' \"2\")",
           "x := 'v'", "y := a + \"b\" / `c`", "export z := if x == 'v' { 'a' } else { 'b' }", "set shell := ['sh', '-c']",
           "set dotenv-load", "mod m", "import 'f'", "alias q := a", "# comment", "", "w := (", ")", "u := f(x,", "'''", "\"\"\"\n  a\n  b\"\"\"",
           "x := \"\\t\\u{1F600}\"", "x := \"\\q\"", "x := x'~/$A'", "x := f'{{y}}'", "k := `echo \u4e2d`", "[group: 'g']", "[doc(\"d\")]",
           "a b='\u00e9\u4e2d' c=\"\U0001F600\":"]
BODIES = ["echo hi", "@echo {{x}}", "-false", "echo {{ 'a' + \"b\" }}", "echo {{{{ not }}", "x \\", "#!/bin/sh", "#! ", "#!", "echo \u4e2d\u6587 {{x}} \U0001F600",
          "echo '{{`echo`}}'", "{{", "}}", "{{x", "echo {{'}}'}}", "\techo tab", "echo \\\n    more", "echo }}", "echo {{{{{{x}}", "@-@echo", "-@", "@"]
EOLS = ["\n", "\n", "\n", "\r\n", "\r\n", "\n\n", ""]


def random_source(rng):
    out = []
    n = rng.randint(1, 8)
    in_body = False
    for _ in range(n):
        r = rng.random()
        if r < 0.12:
            # raw noise from the alphabet
            out.append("".join(rng.choice(PIECES) for _ in range(rng.randint(1, 6))))
            continue
        if in_body and r < 0.7:
            out.append(rng.choice(["  ", "  ", "\t", "    ", " ", "   ", "  \t"]) + rng.choice(BODIES) + rng.choice(EOLS))
            continue
        h = rng.choice(HEADERS)
        in_body = h.endswith(":") or ": " in h
        out.append(rng.choice(LINE_STARTS if rng.random() < 0.2 else [""]) + h + rng.choice(EOLS))
    return "".join(out)


def repo_sources():
    """justfile texts found in the repository (used as mutation seeds)."""
    out = []
    for rel in ["justfile", "examples", "tests/justfile"]:
        p = os.path.join(C.REPO, rel)
        if os.path.isfile(p):
            out.append(open(p, encoding="utf-8", errors="replace").read())
        elif os.path.isdir(p):
            for fn in sorted(os.listdir(p)):
                f = os.path.join(p, fn)
                if os.path.isfile(f):
                    out.append(open(f, encoding="utf-8", errors="replace").read())
    readme = os.path.join(C.REPO, "README.md")
    if os.path.exists(readme):
        text = open(readme, encoding="utf-8").read()
        for m in re.finditer(r"```just\n(.*?)```", text, re.S):
            out.append(m.group(1))
    return out


def mutate(rng, src):
    """a small random edit: delete a span, insert a piece, duplicate a span, or swap line endings"""
    if not src:
        return rng.choice(PIECES)
    r = rng.random()
    i = rng.randrange(len(src) + 1)
    if r < 0.35:
        return src[:i] + rng.choice(PIECES) + src[i:]
    if r < 0.6:
        j = min(len(src), i + rng.randint(1, 6))
        return src[:i] + src[j:]
    if r < 0.75:
        j = min(len(src), i + rng.randint(1, 12))
        return src[:j] + src[i:j] + src[j:]
    if r < 0.85:
        return src.replace("\n", "\r\n")
    if r < 0.95:
        return src[:i]
    return src[:i] + rng.choice(PIECES) + rng.choice(PIECES) + src[i:]
