"""Regenerate lean/Just/Generated/Tables.lean from fragments of /repo/src that ARE tables.

function::get (name -> arity class), constants::CONSTANTS, search::JUSTFILE_NAMES, the parser's
recursion limit.  If a fragment can no longer be recognised the committed table is kept and the
fact is reported (the correspondence run is then the only tie for that table)."""
import os
import re

from . import common as C

OUT = os.path.join(C.LEAN, "Just", "Generated", "Tables.lean")


def lean_str(s):
    out = '"'
    for ch in s:
        o = ord(ch)
        if ch == '"':
            out += '\\"'
        elif ch == "\\":
            out += "\\\\"
        elif o < 32 or o == 127:
            out += "\\x%02x" % o
        else:
            out += ch
    return out + '"'


def rust_unescape(s):
    return re.sub(r"\\x([0-9a-fA-F]{2})", lambda m: chr(int(m.group(1), 16)), s).replace('\\"', '"').replace("\\\\", "\\")


def extract():
    notes = []
    src = open(os.path.join(C.REPO, "src", "function.rs")).read()
    m = re.search(r"let function = match name\.as_str\(\) \{(.*?)_ => return None", src, re.S)
    functions = []
    if m:
        for name, cls in re.findall(r'"([a-z0-9_]+)"\s*=>\s*(Nullary|UnaryOpt|UnaryPlus|Unary|BinaryPlus|Binary|Ternary)\(', m.group(1)):
            functions.append((name, cls))
    if len(functions) < 40:
        notes.append("function table not recognised in src/function.rs")
        functions = None
    src = open(os.path.join(C.REPO, "src", "constants.rs")).read()
    m = re.search(r"const CONSTANTS: \[[^\]]*\] = \[(.*?)\];", src, re.S)
    constants = []
    if m:
        for name, value in re.findall(r'\("([A-Z_0-9]+)",\s*"((?:[^"\\]|\\.)*)",', m.group(1)):
            constants.append((name, rust_unescape(value)))
    if len(constants) < 3:
        notes.append("constants table not recognised in src/constants.rs")
        constants = None
    src = open(os.path.join(C.REPO, "src", "search.rs")).read()
    m = re.search(r'JUSTFILE_NAMES: \[&str; \d+\] = \[([^\]]*)\]', src)
    names = re.findall(r'"([^"]+)"', m.group(1)) if m else None
    if not names:
        notes.append("JUSTFILE_NAMES not recognised in src/search.rs")
    src = open(os.path.join(C.REPO, "src", "parser.rs")).read()
    m = re.search(r"recursion_depth == if cfg!\(windows\) \{ (\d+) \} else \{ (\d+) \}", src)
    limit = int(m.group(2)) if m else None
    if limit is None:
        notes.append("parser recursion limit not recognised in src/parser.rs")
    return functions, constants, names, limit, notes


def kebab(name):
    return re.sub(r"(?<!^)([A-Z])", r"-\1", name).lower()


def extract_syntax_tables():
    """attribute names in declaration order with their argument-count range (src/attribute.rs) and the
    settings with the form of their value (src/parser.rs parse_set)."""
    notes = []
    src = open(os.path.join(C.REPO, "src", "attribute.rs")).read()
    attributes = None
    m = re.search(r"pub\(crate\) enum Attribute<'src> \{(.*?)\n\}", src, re.S)
    r = re.search(r"fn argument_range\(self\) -> RangeInclusive<usize> \{\s*match self \{(.*?)\n    \}", src, re.S)
    if m and r:
        variants = re.findall(r"^\s*([A-Z][A-Za-z]*)\b", m.group(1), re.M)
        ranges = {}
        for arm in re.findall(r"((?:\|?\s*Self::[A-Za-z]+\s*)+)=>\s*(\d+)\.\.=(\d+|usize::MAX)", r.group(1)):
            for v in re.findall(r"Self::([A-Za-z]+)", arm[0]):
                ranges[v] = (int(arm[1]), None if arm[2] == "usize::MAX" else int(arm[2]))
        if variants and all(v in ranges for v in variants):
            attributes = [(kebab(v), ranges[v][0], ranges[v][1]) for v in variants]
    if not attributes or len(attributes) < 10:
        notes.append("attribute table not recognised in src/attribute.rs")
        attributes = None
    src = open(os.path.join(C.REPO, "src", "parser.rs")).read()
    settings = []
    for v, form in re.findall(r"Keyword::([A-Za-z]+) => \{?\s*Some\(Setting::[A-Za-z]+\(self\.(parse_set_bool|parse_string_literal|parse_interpreter)\(\)\?\)\)", src):
        settings.append((kebab(v), {"parse_set_bool": "bool", "parse_string_literal": "string", "parse_interpreter": "interpreter"}[form]))
    if len(settings) < 15:
        notes.append("setting table not recognised in src/parser.rs")
        settings = None
    return attributes, settings, notes


def extract_signals():
    """the fatal signals and their numbers on this platform (src/signal.rs): enum variants without a `#[cfg(...)]` gate"""
    src = open(os.path.join(C.REPO, "src", "signal.rs")).read()
    m = re.search(r"pub\(crate\) enum Signal \{(.*?)\n\}", src, re.S)
    if not m:
        return None, ["signal enum not recognised in src/signal.rs"]
    body = re.sub(r"#\[cfg\(any\((?:.|\n)*?\)\)\]\s*[A-Za-z]+ = \d+,", "", m.group(1))
    sigs = [(n, int(v)) for n, v in re.findall(r"^\s*([A-Z][A-Za-z]*) = (\d+),", body, re.M)]
    if len(sigs) < 3:
        return None, ["signal enum not recognised in src/signal.rs"]
    return sigs, []


def extract_misc():
    """the unstable features (src/unstable_feature.rs) and the default environment file name (src/load_dotenv.rs)"""
    notes = []
    src = open(os.path.join(C.REPO, "src", "unstable_feature.rs")).read()
    m = re.search(r"pub\(crate\) enum UnstableFeature \{(.*?)\n\}", src, re.S)
    feats = re.findall(r"^\s*([A-Z][A-Za-z]*),", m.group(1), re.M) if m else None
    if not feats:
        notes.append("UnstableFeature enum not recognised in src/unstable_feature.rs")
        feats = None
    src = open(os.path.join(C.REPO, "src", "load_dotenv.rs")).read()
    m = re.search(r'dotenv_filename\.map_or\("([^"]*)"', src)
    dflt = m.group(1) if m else None
    if dflt is None:
        notes.append("default environment file name not recognised in src/load_dotenv.rs")
    return feats, dflt, notes


def regenerate():
    """Returns (changed, notes)."""
    functions, constants, names, limit, notes = extract()
    attributes, settings, notes2 = extract_syntax_tables()
    signals, notes3 = extract_signals()
    feats, dotenv_default, notes4 = extract_misc()
    notes = notes + notes2 + notes3 + notes4
    old = open(OUT).read() if os.path.exists(OUT) else ""

    def keep(tag):
        m = re.search(r"-- BEGIN %s\n(.*?)-- END %s\n" % (tag, tag), old, re.S)
        return m.group(1) if m else ""

    parts = ["/- GENERATED by vlib/extract.py from /repo/src on every check run; do not edit. -/\nnamespace Just.Generated\n\n"]
    parts.append("-- BEGIN functions\n")
    if functions is not None:
        parts.append("/-- `function::get`: name and arity class (src/function.rs) -/\ndef functionTable : List (String × String) := [\n" +
                     ",\n".join("  (%s, %s)" % (lean_str(n), lean_str(c)) for n, c in functions) + "]\n")
    else:
        parts.append(keep("functions"))
    parts.append("-- END functions\n\n-- BEGIN constants\n")
    if constants is not None:
        parts.append("/-- `CONSTANTS` (src/constants.rs) -/\ndef constantTable : List (String × String) := [\n" +
                     ",\n".join("  (%s, %s)" % (lean_str(n), lean_str(v)) for n, v in constants) + "]\n")
    else:
        parts.append(keep("constants"))
    parts.append("-- END constants\n\n-- BEGIN names\n")
    if names:
        parts.append("/-- `JUSTFILE_NAMES` (src/search.rs) -/\ndef justfileNames : List String := [" + ", ".join(lean_str(n) for n in names) + "]\n")
    else:
        parts.append(keep("names"))
    parts.append("-- END names\n\n-- BEGIN limit\n")
    if limit is not None:
        parts.append("/-- parser recursion limit on unix (src/parser.rs) -/\ndef recursionLimit : Nat := %d\n" % limit)
    else:
        parts.append(keep("limit"))
    parts.append("-- END limit\n\n-- BEGIN attributes\n")
    if attributes is not None:
        parts.append("/-- `enum Attribute` in declaration order (= `Ord`), with `argument_range` (src/attribute.rs); `none` = unbounded -/\n"
                     "def attributeTable : List (String × Nat × Option Nat) := [\n" +
                     ",\n".join("  (%s, %d, %s)" % (lean_str(n), lo, "none" if hi is None else "some %d" % hi) for n, lo, hi in attributes) + "]\n")
    else:
        parts.append(keep("attributes"))
    parts.append("-- END attributes\n\n-- BEGIN settings\n")
    if settings is not None:
        parts.append("/-- the settings `parse_set` knows and the form of their value (src/parser.rs) -/\n"
                     "def settingTable : List (String × String) := [\n" +
                     ",\n".join("  (%s, %s)" % (lean_str(n), lean_str(f)) for n, f in settings) + "]\n")
    else:
        parts.append(keep("settings"))
    parts.append("-- END settings\n\n-- BEGIN signals\n")
    if signals is not None:
        parts.append("/-- `enum Signal` on this platform: variant and number (src/signal.rs) -/\n"
                     "def signalTable : List (String × Nat) := [" + ", ".join("(%s, %d)" % (lean_str(n), v) for n, v in signals) + "]\n")
    else:
        parts.append(keep("signals"))
    parts.append("-- END signals\n\n-- BEGIN unstable\n")
    if feats is not None:
        parts.append("/-- `enum UnstableFeature` (src/unstable_feature.rs) -/\ndef unstableFeatures : List String := [" + ", ".join(lean_str(n) for n in feats) + "]\n")
    else:
        parts.append(keep("unstable"))
    parts.append("-- END unstable\n\n-- BEGIN dotenv\n")
    if dotenv_default is not None:
        parts.append("/-- the environment file searched for when no name is given (src/load_dotenv.rs) -/\ndef defaultDotenvName : String := %s\n" % lean_str(dotenv_default))
    else:
        parts.append(keep("dotenv"))
    parts.append("-- END dotenv\n\nend Just.Generated\n")
    new = "".join(parts)
    if new != old:
        os.makedirs(os.path.dirname(OUT), exist_ok=True)
        with open(OUT, "w") as f:
            f.write(new)
        return True, notes
    return False, notes


if __name__ == "__main__":
    print(regenerate())
