"""C07 - argument and override values reach commands byte-for-byte."""
import itertools
import json
import os
import subprocess

from . import common as C

ALPHABET = [" ", "\t", "\n", "\r", "'", '"', "$", "\\", "`", ";", "&", "|", "<", ">", "(", ")", "{", "}", "*", "?", "[",
            "#", "~", "=", "{{", "é", "a"]

PAYLOADS = [
    "'; touch canary; '", "$(touch canary)", "`touch canary`", "x\ntouch canary", "' ; touch canary #",
    "\"$(touch canary)\"", "'\\''; touch canary; '\\''", "a' 'b", "\\'; touch canary; \\'", "{{{{", "{{`touch canary`}}",
    "--option", "-", "x=y=z", "=", "a=b", "$0", "$@", "${x}", "%s%n", "\\", "\\\\", "'", "''", "'''", "'\\''",
    "日本語 テキスト", "🤖 emoji", "tab\there", " lead", "trail ", "  ", "*", "~", "!!", "a;b&c|d",
]

JUSTFILE = """set positional-arguments

export v := ''

r $x *$rest:
  printf '%s\\0' {{quote(x)}} > q.out
  printf '%s\\0' "$x" > e.out
  printf '%s\\0' "$1" > p.out
  printf '%s\\0' "$@" > all.out
  printf '%s\\0' "$0" > zero.out
  printf '%s\\0' {{quote(v)}} > ov.out
  printf '%s\\0' "$v" > oe.out
  printf '%s\\0' "$rest" > rest.out

s $x *rest:
  #!/bin/sh
  printf '%s\\0' {{quote(x)}} > sq.out
  printf '%s\\0' "$x" > se.out
  printf '%s\\0' "$@" > sall.out
"""


def values(tier, seed):
    out = [""]
    n = 2 if tier == "quick" else 3
    for k in range(1, n + 1):
        for t in itertools.product(ALPHABET, repeat=k):
            out.append("".join(t))
    out += PAYLOADS
    rng = C.case_rng(seed, 0, "c07")
    for _ in range(1500 if tier == "quick" else 30000):
        k = rng.randint(4, 12)
        out.append("".join(rng.choice(ALPHABET + ["b", "c", "1", "-", "touch canary"]) for _ in range(k)))
    return out


def read0(path):
    if not os.path.exists(path):
        return None
    data = open(path, "rb").read()
    parts = data.split(b"\0")
    if parts and parts[-1] == b"":
        parts.pop()
    return [p.decode("utf-8", "replace") for p in parts]


def run_value(arg):
    i, x, rest, ov = arg
    with C.scratch("c07") as d:
        # every other case: a loaded .env file that defines the names of the parameters and of the overridden
        # variable - the value given on the command line is what the command must see
        dotenv = i % 2 == 1
        open(os.path.join(d, "justfile"), "w").write(("set dotenv-load\n" if dotenv else "") + JUSTFILE)
        if dotenv:
            open(os.path.join(d, ".env"), "w").write("x=dotenv-x\nrest=dotenv-rest\nv=dotenv-v\n")
        env = dict(C.BASE_ENV)
        env.update({"HOME": d, "TMPDIR": d})
        res = {}
        p = subprocess.run([C.JUST, "v=" + ov, "r", x] + rest, cwd=d, env=env, stdin=subprocess.DEVNULL,
                           stdout=subprocess.PIPE, stderr=subprocess.PIPE)
        res["rc"] = p.returncode
        res["stderr"] = p.stderr.decode("utf-8", "replace")[-600:]
        for f in ("q", "e", "p", "all", "zero", "ov", "oe", "rest"):
            res[f] = read0(os.path.join(d, f + ".out"))
        p = subprocess.run([C.JUST, "s", x] + rest, cwd=d, env=env, stdin=subprocess.DEVNULL,
                           stdout=subprocess.PIPE, stderr=subprocess.PIPE)
        res["src"] = p.returncode
        for f in ("sq", "se", "sall"):
            res[f] = read0(os.path.join(d, f + ".out"))
        # the raw text just hands to the shell, through the logging shell
        logp = os.path.join(d, "vsh.log")
        env2 = dict(env, VSH_LOG=logp)
        subprocess.run([C.JUST, "--shell", C.VSH, "--shell-arg", "-c", "v=" + ov, "r", x] + rest, cwd=d, env=env2,
                       stdin=subprocess.DEVNULL, stdout=subprocess.PIPE, stderr=subprocess.PIPE)
        entries = C.read_vsh_log(logp)
        res["raw"] = entries[0]["argv"][2] if entries else None
        res["raw_argv"] = entries[0]["argv"][3:] if entries else None
        res["canary"] = os.path.exists(os.path.join(d, "canary"))
        return res


# ---- random signatures: argv and environment of the child against Just.Channels

def gen_channel_case(rng, vals):
    """A recipe with a random parameter list, random words, in a module with random neighbours of the channels:
    `set export`, `set positional-arguments`, a .env file and outer variables with the parameters' names."""
    kinds = []
    n = rng.randint(1, 4)
    for k in range(n):
        last = k == n - 1
        kind = rng.choice(["singular", "singular", "default"] + (["plus", "star", "stardefault"] if last else []))
        kinds.append(kind)
    # required parameters may not follow defaulted ones
    seen_default = False
    for k, kind in enumerate(kinds):
        if kind == "default":
            seen_default = True
        elif seen_default and kind in ("singular", "plus"):
            kinds[k] = "default" if kind == "singular" else "stardefault"
    names = rng.sample(["x", "y", "z", "w", "HEX"], n)
    params = []
    for nm, kind in zip(names, kinds):
        params.append({"name": nm, "exported": rng.random() < 0.5,
                       "kind": {"singular": "singular", "default": "singular", "plus": "plus", "star": "star", "stardefault": "star"}[kind],
                       "default": "d-" + nm if kind in ("default", "stardefault") else None})
    required = sum(1 for p in params if p["default"] is None and p["kind"] != "star")
    variadic = params[-1]["kind"] != "singular"
    hi = n + 3 if variadic else n
    nwords = rng.randint(required, hi)
    pool = vals[:700]
    words = [rng.choice(pool) for _ in range(nwords)]
    # the first word must not look like an option (clap's business)
    return {"params": params, "words": words, "positional": rng.random() < 0.7, "set_export": rng.random() < 0.4,
            "script": rng.random() < 0.3, "dotenv": rng.random() < 0.5, "outer": rng.random() < 0.5,
            "unexport": rng.random() < 0.3, "in_module": rng.choice([None, None, "sub::r", "sub r"])}


def channel_files(c):
    t = 'set shell := ["%s", "-c"]\n' % C.VSH
    if c["positional"]:
        t += "set positional-arguments\n"
    if c["set_export"]:
        t += "set export\n"
    if c["dotenv"]:
        t += "set dotenv-load\n"
    if c["unexport"]:
        t += "unexport %s\n" % c["params"][0]["name"]
    if c["outer"]:
        # a variable of the module with the name of the last parameter (the parameter shadows it); never the unexported name
        nm = c["params"][-1]["name"]
        if not (c["unexport"] and nm == c["params"][0]["name"]):
            t += "export %s := 'outer-%s'\n" % (nm, nm)
        else:
            c = dict(c, outer=False)
    head = "r"
    for p in c["params"]:
        head += " " + {"singular": "", "plus": "+", "star": "*"}[p["kind"]] + ("$" if p["exported"] else "") + p["name"]
        if p["default"] is not None:
            head += "='%s'" % p["default"]
    body = "  #!%s\n  [T]\n" % C.VSH if c["script"] else "  [T]\n"
    files = {"justfile": t + "\n" + head + ":\n" + body}
    if c.get("in_module"):
        # the recipe lives in a submodule and is named by its path: `$0` is still the recipe's name
        files = {"justfile": 'set shell := ["%s", "-c"]\n' % C.VSH + ("set dotenv-load\n" if c["dotenv"] else "") + "mod sub\n", "sub.just": files["justfile"]}
    if c["dotenv"]:
        files[".env"] = "".join("%s=dotenv-%s\n" % (p["name"], p["name"]) for p in c["params"]) + "OTHER=dotenv-other\n"
    return files, c


def run_channel_case(c):
    files, c = channel_files(c)
    with C.scratch("c07c") as d:
        for f, t in files.items():
            open(os.path.join(d, f), "w").write(t)
        logp = os.path.join(d, "vsh.log")
        env = dict(C.BASE_ENV)
        env.update({"HOME": d, "TMPDIR": d, "VSH_LOG": logp})
        # `--` keeps words that look like options away from clap
        p = subprocess.run([C.JUST] + (c.get("in_module") or "r").split(" ") + (["--"] if any(w.startswith("-") for w in c["words"]) else []) + c["words"], cwd=d, env=env,
                           stdin=subprocess.DEVNULL, stdout=subprocess.PIPE, stderr=subprocess.PIPE)
        entries = C.read_vsh_log(logp)
        e = entries[0] if entries else None
        names = [p_["name"] for p_ in c["params"]] + ["OTHER"]
        return {"rc": p.returncode, "stderr": p.stderr.decode("utf-8", "replace")[-300:], "files": files,
                "argv": e["argv"] if e else None, "env": {k: e["env"].get(k) for k in names} if e else None, "outer": c["outer"]}


def channel_request(c, r):
    outer = []
    if r["outer"]:
        nm = c["params"][-1]["name"]
        outer = [[{"name": nm, "value": "outer-" + nm, "exported": True, "constant": False}]]
    return {"op": "channels",
            "params": [{"name": p["name"], "exported": p["exported"],
                        "p": {"kind": p["kind"], "default": None if p["default"] is None else [{"lit": {"s": p["default"]}}]}} for p in c["params"]],
            "words": c["words"], "positional": c["positional"],
            "shell": [C.VSH] if c["script"] else [C.VSH, "-c"], "command": "<script>" if c["script"] else "[T]", "name": "r",
            "script": c["script"], "base": [],
            "dotenv": ([[p["name"], "dotenv-" + p["name"]] for p in c["params"]] + [["OTHER", "dotenv-other"]]) if c["dotenv"] else [],
            "setExport": c["set_export"], "unexports": [c["params"][0]["name"]] if c["unexport"] else [], "outer": outer,
            "names": [p["name"] for p in c["params"]] + ["OTHER"]}


def channel_oracle(c, r):
    """The statement, directly: every word is one argv element after the recipe name; an exported parameter's variable
    holds its word (a variadic one its words joined by single spaces)."""
    bad = []
    if c["positional"]:
        tail = r["argv"][2:] if c["script"] else r["argv"][3:]
        want = ([] if c["script"] else ["r"]) + c["words"]
        if tail[:len(want)] != want:
            bad.append(("positional", tail, want))
    k = 0
    for i, p in enumerate(c["params"]):
        if not (p["exported"] or c["set_export"]):
            continue
        if p["kind"] == "singular":
            if i < len(c["words"]) and r["env"][p["name"]] != c["words"][i]:
                bad.append(("export", p["name"], r["env"][p["name"]], c["words"][i]))
        elif i < len(c["words"]) and r["env"][p["name"]] != " ".join(c["words"][i:]):
            bad.append(("export-variadic", p["name"], r["env"][p["name"]], " ".join(c["words"][i:])))
    return bad


def run(report):
    tier = report.tier
    just, bt = C.build_just()
    C.proof_stage(report, "C07", thorough=(tier == "thorough"))
    drv = C.Driver()
    vals = values(tier, report.seed)
    rng = C.case_rng(report.seed, 1, "c07")
    args = []
    for i, x in enumerate(vals):
        rest = [] if i % 3 else [rng.choice(vals[:600]), rng.choice(vals[:600])]
        ov = vals[(i * 7 + 3) % len(vals)]
        args.append((i, x, rest, ov))
    results = C.pmap(run_value, args)
    mq = drv.pbatch([{"op": "quote", "s": x} for x in vals], chunk=4000)
    stats = {"values": len(vals), "with_variadic": 0, "lengths": {}, "model_quote_compared": 0, "dash_model_compared": 0}
    distinct = set()
    samples = []
    for (i, x, rest, ov), r, m in zip(args, results, mq):
        distinct.add(x)
        stats["lengths"][min(len(x), 8)] = stats["lengths"].get(min(len(x), 8), 0) + 1
        if rest:
            stats["with_variadic"] += 1
        want = {
            "q": [x], "e": [x], "p": [x], "all": [x] + rest, "zero": ["r"], "ov": [ov], "oe": [ov],
            "rest": [" ".join(rest)], "sq": [x], "se": [x], "sall": [x] + rest,
        }
        bad = [k for k in want if r[k] != want[k]]
        replay = {"x": x, "rest": rest, "override": ov, "justfile": JUSTFILE,
                  "argv": ["v=" + ov, "r", x] + rest, "observed": {k: r[k] for k in want}, "rc": r["rc"], "stderr": r["stderr"]}
        if r["canary"]:
            report.failure("c07-injection", "a value made a recipe execute an additional command (canary file created)", replay)
            continue
        if bad or r["rc"] != 0 or r["src"] != 0:
            chan = {"q": "quote", "sq": "quote-script", "e": "export", "se": "export-script", "p": "positional", "all": "positional-all",
                    "sall": "positional-script", "zero": "dollar0", "ov": "override-quote", "oe": "override-export", "rest": "variadic-export"}
            sig = "c07-channel:" + (chan[bad[0]] if bad else "exit-status")
            replay["expected"] = {k: want[k] for k in bad}
            report.failure(sig, "value did not arrive unchanged through channel(s) %s" % bad, replay)
            continue
        # model correspondence: the text handed to the shell is `printf '%s\0' <quote(x)> > q.out`
        expect_raw = "printf '%s\\0' " + m["q"] + " > q.out"
        stats["model_quote_compared"] += 1
        if r["raw"] != expect_raw or r["raw_argv"] != ["r", x] + rest:
            report.failure("c07-model-quote", "quote() text / positional argv differ from the Lean model (all channels deliver the value)",
                           dict(replay, correspondence="C07 quote text vs Just.Quote.quote", model=expect_raw, raw=r["raw"],
                                raw_argv=r["raw_argv"]), no_input=True)
        if len(samples) < 4 and len(x) > 4 and "'" in x:
            samples.append({"x": x, "quoted": m["q"], "delivered": r["q"]})
    # random signatures: the child's argv and environment against the statement and against Just.Channels
    nchan = 1500 if tier == "quick" else 25000
    ccases = [gen_channel_case(C.case_rng(report.seed, i, "c07-channels"), vals) for i in range(nchan)]
    cres = C.pmap(run_channel_case, ccases)
    cmod = drv.pbatch([channel_request(c, r) for c, r in zip(ccases, cres)], chunk=2000)
    stats["channel_cases"] = nchan
    stats["channel_shapes"] = {}
    for c, r, m in zip(ccases, cres, cmod):
        if "fatal" in m:
            raise C.BuildError("model driver: " + m["fatal"])
        shape = " ".join({"singular": "s", "plus": "+", "star": "*"}[p["kind"]] + ("=" if p["default"] is not None else "") for p in c["params"])
        stats["channel_shapes"][shape] = stats["channel_shapes"].get(shape, 0) + 1
        replay = {"files": r["files"], "argv": ["r"] + c["words"], "case": c, "observed": {"rc": r["rc"], "argv": r["argv"], "env": r["env"], "stderr": r["stderr"]}}
        if r["rc"] != 0 or r["argv"] is None:
            report.failure("c07-channel-run", "a valid invocation did not run: " + r["stderr"][-150:], replay)
            continue
        bad = channel_oracle(c, r)
        if bad:
            report.failure("c07-channel:%s" % bad[0][0], "a word did not arrive unchanged: %r" % (bad[0],), dict(replay, expected=bad))
            continue
        margv = m.get("argv")
        if c["script"] and margv:
            margv = [margv[0], r["argv"][1]] + margv[2:]      # the script's path is a temporary file
        if "error" in m or margv != r["argv"] or m["env"] != r["env"]:
            report.failure("c07-model-channels", "argv / environment of the child differ from Just.Channels (the statement oracle holds)",
                           dict(replay, correspondence="C07 argv and env vs Just.Channels.evalParams/linewiseArgv/scriptArgv/recipeEnv", model=m), no_input=True)
    # validate the POSIX word model against dash on inputs inside the subset
    subset = ["a", "b", "'", "\\", " ", "\t", "-", "é"]
    texts = []
    for _ in range(1500 if tier == "quick" else 20000):
        texts.append("".join(rng.choice(subset) for _ in range(rng.randint(1, 9))))
    ms = drv.pbatch([{"op": "shsplit", "s": "printf '%s\\0' " + t} for t in texts], chunk=4000)

    def dash(t):
        p = subprocess.run(["/bin/sh", "-c", "printf '%s\\0' " + t], stdout=subprocess.PIPE, stderr=subprocess.PIPE,
                           env={"PATH": "/usr/bin:/bin"})
        if p.returncode != 0:
            return None
        parts = p.stdout.split(b"\0")
        if parts and parts[-1] == b"":
            parts.pop()
        return [x.decode("utf-8", "replace") for x in parts]

    ds = C.pmap(dash, texts)
    for t, m, dres in zip(texts, ms, ds):
        if m["words"] is None:
            continue
        stats["dash_model_compared"] += 1
        words = m["words"][2:]
        # printf with no arguments prints the format once with an empty %s
        if words == []:
            words = [""]
        if dres != words:
            report.failure("c07-model-shell", "the POSIX word model disagrees with /bin/sh",
                           {"correspondence": "Just.Quote.shSplit vs dash", "input": t, "model": m["words"], "sh": dres}, no_input=True)
    report.coverage.update({
        "evaluations": len(vals) + stats["dash_model_compared"] + nchan,
        "distinct_nontrivial": len(distinct),
        "rule": "all strings of length <=%d over a 27-symbol metacharacter alphabet (carriage return included) (exhaustive) + injection payloads + random longer strings, each delivered through quote(), exported $param, \"$1\"/\"$@\"/$0 under positional-arguments (linewise and shebang), variadic words, and a NAME=VALUE override (quote and export); real /bin/sh; plus random parameter lists (singular, default, +, *, exported or not) x random words x {root recipe, recipe of a submodule named `sub::r` or `sub r`} x {positional-arguments, set export, shebang, a .env file and a module variable defining the same names, unexport}: argv and environment of the child vs the statement and vs Just.Channels; distinct = distinct values" % (2 if tier == "quick" else 3),
        "samples": samples,
        "exhaustive": True,
        "traces_validated_against_impl": len(vals),
        "stats": stats,
        "build_s": round(bt, 1),
    })
    report.assumptions += [
        "POSIX shell = /bin/sh (dash); the Lean word model is validated against it on the quoting subset",
        "NUL and invalid UTF-8 are excluded by the statement",
    ]


def replay(report, path):
    body = json.load(open(path))
    C.build_just()
    rp = body["replay"]
    r = run_value((0, rp["x"], rp["rest"], rp["override"]))
    print(json.dumps(r, indent=1, ensure_ascii=False))
    report.coverage.update({"obligations": 1, "discharged": 1, "checker_cmd": "replay", "trusted_base": []})
    if r["q"] != [rp["x"]] or r["canary"]:
        report.failure(body["signature"], "replay still fails", rp)
