"""C03 - reference, cycle and arity errors are rejected before anything runs."""
import itertools
import json
import os
import re
import subprocess

from . import common as C
from . import extract
from .exprs import And, Assert, Bt, Call, Concat, Cond, Group, JoinL, JoinR, Or, Str, Var, pr

# ---------------------------------------------------------------------------------------------
# programs


def line(*parts):
    """parts: strings (text) or expression dicts (interpolations)"""
    return {"parts": list(parts)}


def line_model(l):
    parts = l["parts"]
    first = parts[0] if parts and isinstance(parts[0], str) else None
    last = parts[-1] if parts and isinstance(parts[-1], str) else None
    return {"interps": [p for p in parts if not isinstance(p, str)],
            "isComment": bool(first is not None and first.startswith("#")),
            "isContinuation": bool(last is not None and last.endswith("\\"))}


def print_line(l):
    return "".join(p if isinstance(p, str) else "{{ " + pr(p) + " }}" for p in l["parts"])


def base():
    return {
        "settings": ["set unstable"],
        "assigns": [["v1", Str("a")], ["v2", Concat(Var("v1"), Str("b"))]],
        "recipes": [
            {"name": "r1", "params": [{"name": "p1", "kind": "singular", "default": None},
                                      {"name": "p2", "kind": "singular", "default": Str("d")},
                                      {"name": "p3", "kind": "star", "default": None}],
             "priors": [{"target": "dep1", "args": [Var("p1")]}],
             "subs": [{"target": "dep2", "args": [Group(Concat(Var("p2"), Var("v1")))]}],
             "body": [line("[T] ", Var("p1"), " ", Var("v2"))], "script": False},
            {"name": "dep1", "params": [{"name": "q", "kind": "singular", "default": None}], "priors": [], "subs": [],
             "body": [line("[D1] ", Var("q"))], "script": False},
            {"name": "dep2", "params": [{"name": "q", "kind": "singular", "default": None}], "priors": [], "subs": [],
             "body": [line("[D2] ", Var("q"))], "script": False},
        ],
        "extra": "",
    }


def print_param(p):
    s = {"singular": "", "plus": "+", "star": "*"}[p["kind"]] + p["name"]
    if p["default"] is not None:
        d = p["default"]
        s += "=" + (pr(d) if d["t"] in ("str", "var", "backtick", "group") or (d["t"] == "call") else "(" + pr(d) + ")")
    return s


def print_dep(d):
    if not d["args"]:
        return d["target"]
    return "(" + d["target"] + "".join(" " + (pr(a) if a["t"] in ("str", "backtick", "group") else "(" + pr(a) + ")") for a in d["args"]) + ")"


def print_prog(p):
    out = ['set shell := ["%s", "-c"]' % C.VSH] + p["settings"]
    for n, e in p["assigns"]:
        out.append("%s := %s" % (n, pr(e)))
    out.append("")
    for r in p["recipes"]:
        head = r["name"] + "".join(" " + print_param(x) for x in r["params"]) + ":"
        head += "".join(" " + print_dep(d) for d in r["priors"])
        if r["subs"]:
            head += " &&" + "".join(" " + print_dep(d) for d in r["subs"])
        out.append(head)
        if r["script"]:
            out.append("  #!" + C.VSH)
        for l in r["body"]:
            out.append("  " + print_line(l))
        out.append("")
    return "\n".join(out) + p.get("extra", "")


def model_of(p):
    return {
        "assigns": sorted([[n, e] for n, e in p["assigns"]], key=lambda x: x[0]),
        "recipes": [{"name": r["name"], "params": r["params"], "deps": r["priors"] + r["subs"],
                     "body": [line_model(l) for l in r["body"]], "script": r["script"]} for r in p["recipes"]],
        "ignoreComments": "set ignore-comments" in p["settings"],
    }


# ---------------------------------------------------------------------------------------------
# defect injection

def wrappers():
    """name -> function placing an expression u at one child position of one constructor"""
    s = Str("s")
    w = {
        "identity": lambda u: u,
        "group": lambda u: Group(u),
        "concat-l": lambda u: Concat(u, s), "concat-r": lambda u: Concat(s, u),
        "join-l": lambda u: JoinL(u, s), "join-r": lambda u: JoinL(s, u), "join-unary": lambda u: JoinR(u),
        "and-l": lambda u: And(u, s), "and-r": lambda u: And(s, u), "or-l": lambda u: Or(u, s), "or-r": lambda u: Or(s, u),
        "cond-lhs": lambda u: Cond(u, "eq", s, s, s), "cond-rhs": lambda u: Cond(s, "ne", u, s, s),
        "cond-then": lambda u: Cond(s, "eq", s, u, s), "cond-else": lambda u: Cond(s, "eq", s, s, u),
        "cond-match-rhs": lambda u: Cond(s, "match", u, s, s),
        "assert-lhs": lambda u: Assert(u, "eq", u, s), "assert-rhs": lambda u: Assert(s, "ne", u, s),
        "assert-msg": lambda u: Assert(s, "eq", s, u),
        "unary": lambda u: Call("uppercase", u),
        "unaryopt-1": lambda u: Call("env", u), "unaryopt-1of2": lambda u: Call("env", u, s), "unaryopt-2of2": lambda u: Call("env", s, u),
        "unaryplus-1": lambda u: Call("shell", u), "unaryplus-2": lambda u: Call("shell", s, u), "unaryplus-4": lambda u: Call("shell", s, s, s, u),
        "binary-1": lambda u: Call("append", u, s), "binary-2": lambda u: Call("append", s, u),
        "binaryplus-1": lambda u: Call("join", u, s), "binaryplus-2": lambda u: Call("join", s, u),
        "binaryplus-3": lambda u: Call("join", s, s, u), "binaryplus-5": lambda u: Call("join", s, s, s, s, u),
        "ternary-1": lambda u: Call("replace", u, s, s), "ternary-2": lambda u: Call("replace", s, u, s),
        "ternary-3": lambda u: Call("replace", s, s, u),
        "nested": lambda u: Concat(Group(Cond(s, "eq", Call("trim", JoinL(s, Group(And(s, u)))), s, s)), s),
    }
    return w


CONTEXTS = ["assign", "default", "default-later-param", "default-self-param", "prior-arg", "subsequent-arg", "interp",
            "interp-script", "interp-second-line", "interp-continued"]


def inject_undefined(ctx, wname, wrap):
    p = base()
    name = "undef"
    if ctx == "default-later-param":
        name = "p3"     # p2's default refers to the LATER parameter p3
    elif ctx == "default-self-param":
        name = "p2"
    e = wrap(Var(name))
    r1 = p["recipes"][0]
    if ctx == "assign":
        p["assigns"].append(["v3", e])
    elif ctx in ("default", "default-later-param", "default-self-param"):
        r1["params"][1]["default"] = e
    elif ctx == "prior-arg":
        r1["priors"][0]["args"] = [e]
    elif ctx == "subsequent-arg":
        r1["subs"][0]["args"] = [e]
    elif ctx == "interp":
        r1["body"][0] = line("[T] ", e)
    elif ctx == "interp-script":
        r1["script"] = True
        r1["body"] = [line("[T] ", e)]
    elif ctx == "interp-second-line":
        r1["body"].append(line("[T2] x ", e, " y"))
    elif ctx == "interp-continued":
        r1["body"] = [line("[T] a \\"), line("  ", e)]
    return p, {"verdict": "reject", "kind": "undefinedVariable", "offender": [name]}


def digraphs(n):
    nodes = list(range(n))
    pairs = [(i, j) for i in nodes for j in nodes]
    for mask in range(1 << len(pairs)):
        yield [pairs[k] for k in range(len(pairs)) if mask >> k & 1]


def has_cycle(n, edges):
    adj = {i: [j for (a, j) in edges if a == i] for i in range(n)}
    color = {}

    def dfs(u):
        color[u] = 1
        for v in adj[u]:
            if color.get(v) == 1:
                return True
            if v not in color and dfs(v):
                return True
        color[u] = 2
        return False

    return any(dfs(i) for i in range(n) if i not in color)


def cyclic_nodes(n, edges):
    """nodes that lie on some cycle"""
    out = set()
    for s in range(n):
        # s reaches itself?
        seen = set()
        stack = [j for (a, j) in edges if a == s]
        while stack:
            u = stack.pop()
            if u == s:
                out.add(s)
                break
            if u in seen:
                continue
            seen.add(u)
            stack += [j for (a, j) in edges if a == u]
    return out


def var_graph_case(n, edges, names=None):
    """names: the variables' names - by default g0.., or names of built-in constants (an assignment of that name takes
    precedence over the constant, so cycles through it are cycles)"""
    names = names or ["g%d" % i for i in range(n)]
    p = base()
    p["assigns"] = []
    for i in range(n):
        e = Str("x")
        for (a, j) in edges:
            if a == i:
                e = Concat(Var(names[j]), e)
        p["assigns"].append([names[i], e])
    p["recipes"][0]["body"] = [line("[T] ", Var(names[0]))]
    p["recipes"][0]["subs"] = []
    p["recipes"][0]["priors"] = []
    if has_cycle(n, edges):
        return p, {"verdict": "reject", "kind": "circularVariable", "offender": [names[i] for i in cyclic_nodes(n, edges)],
                   "edges": [(names[a], names[b]) for a, b in edges]}
    return p, {"verdict": "accept"}


def recipe_graph_case(n, edges):
    p = base()
    p["assigns"] = []
    p["recipes"] = []
    for i in range(n):
        out = [j for (a, j) in edges if a == i]
        p["recipes"].append({"name": "g%d" % i, "params": [], "priors": [{"target": "g%d" % j, "args": []} for j in out[:1]],
                             "subs": [{"target": "g%d" % j, "args": []} for j in out[1:]],
                             "body": [line("[G%d]" % i)], "script": False})
    if has_cycle(n, edges):
        return p, {"verdict": "reject", "kind": "circularRecipe", "offender": ["g%d" % i for i in cyclic_nodes(n, edges)],
                   "edges": [("g%d" % a, "g%d" % b) for a, b in edges]}
    return p, {"verdict": "accept"}


def dep_arity_cases():
    sigs = {"none": [], "one": ["singular"], "one-def": [("singular", True)], "two-def": ["singular", ("singular", True)],
            "plus": ["plus"], "star": ["star"], "one-star": ["singular", "star"], "plus-def": [("plus", True)]}
    for sname, sig in sigs.items():
        params = []
        for i, k in enumerate(sig):
            kind, dflt = (k, False) if isinstance(k, str) else k
            params.append({"name": "q%d" % i, "kind": kind, "default": Str("d") if dflt else None})
        mn = sum(1 for x in params if x["default"] is None and x["kind"] != "star")
        variadic = any(x["kind"] != "singular" for x in params)
        for cnt in range(0, 4):
            for pos in ("priors", "subs"):
                p = base()
                p["recipes"][1]["params"] = params
                p["recipes"][1]["body"] = [line("[D1]")]
                r1 = p["recipes"][0]
                r1["priors"] = []
                r1["subs"] = []
                r1[pos] = [{"target": "dep1", "args": [Str("a%d" % k) for k in range(cnt)]}]
                ok = mn <= cnt and (variadic or cnt <= len(params))
                yield p, ({"verdict": "accept"} if ok else {"verdict": "reject", "kind": "depArity", "offender": ["dep1"]}), "%s/%d/%s" % (sname, cnt, pos)


def parameter_order_cases():
    """every parameter list of two and three parameters over {required, defaulted} x {singular, +, *}: a parameter that needs
    a word (no default, not `*`) after a defaulted one would be left without a value, and nothing may follow a variadic"""
    kinds = [("singular", False), ("singular", True), ("plus", False), ("plus", True), ("star", False), ("star", True)]
    for n in (2, 3):
        for sig in itertools.product(kinds, repeat=n):
            params = [{"name": "q%d" % i, "kind": k, "default": Str("d%d" % i) if dflt else None} for i, (k, dflt) in enumerate(sig)]
            bad = None
            seen_default = False
            for i, (k, dflt) in enumerate(sig):
                if k != "singular" and i != n - 1:
                    bad = "syntax"      # a second variadic marker is a syntax error, a plain name `follows variadic parameter`
                    break
                if dflt:
                    seen_default = True
                elif seen_default and k != "star":
                    bad = "q%d" % i
                    break
            p = base()
            p["recipes"][1]["params"] = params
            p["recipes"][1]["body"] = [line("[D1] ", Var("q0"))]
            p["recipes"][0]["priors"] = []
            p["recipes"][0]["subs"] = []
            tag = "+".join(("%s%s" % ({"singular": "s", "plus": "p", "star": "x"}[k], "=" if dflt else "")) for k, dflt in sig)
            pm = [{"kind": k, "default": [{"lit": {"s": "d"}}] if dflt else None} for k, dflt in sig]
            yield p, ({"verdict": "reject", "kind": "paramOrder", "offender": [bad], "nomodel": True, "any_rejection": bad == "syntax", "params_model": pm} if bad
                      else {"verdict": "accept", "nomodel": True, "params_model": pm}), tag


def class_accepts(cls, n):
    return {"Nullary": n == 0, "Unary": n == 1, "UnaryOpt": n in (1, 2), "UnaryPlus": n >= 1, "Binary": n == 2,
            "BinaryPlus": n >= 2, "Ternary": n == 3}[cls]


def function_arity_cases(functions):
    names = [f for f, _ in functions] + ["nosuchfunction", "cache_dir", "invocation_dir_native", "x_dir"]
    table = dict(functions)
    for f in names:
        for cnt in range(0, 5):
            p = base()
            p["assigns"].append(["v3", Call(f, *[Str("a")] * cnt)])
            canon = f
            if f.endswith("_dir"):
                canon = f[:-4] + "_directory"
            elif f.endswith("_dir_native"):
                canon = f[:-11] + "_directory_native"
            ok = canon in table and class_accepts(table[canon], cnt)
            yield p, ({"verdict": "accept", "norun": True} if ok else {"verdict": "reject", "kind": "badCall", "offender": [f]}), "%s/%d" % (f, cnt)


def duplicate_cases():
    for allow in (False, True):
        p = base()
        if allow:
            p["settings"].append("set allow-duplicate-recipes")
        p["recipes"].append({"name": "dep1", "params": [{"name": "q", "kind": "singular", "default": None}], "priors": [], "subs": [],
                             "body": [line("[D1b] ", Var("q"))], "script": False})
        yield p, ({"verdict": "accept", "nomodel": True} if allow else {"verdict": "reject", "kind": "duplicate", "offender": ["dep1"], "nomodel": True}), "recipe/%s" % allow
        p = base()
        if allow:
            p["settings"].append("set allow-duplicate-variables")
        p["assigns"].append(["v1", Str("again")])
        yield p, ({"verdict": "accept", "nomodel": True} if allow else {"verdict": "reject", "kind": "duplicate", "offender": ["v1"], "nomodel": True}), "variable/%s" % allow
    p = base()
    p["recipes"][0]["params"][1]["name"] = "p1"
    yield p, {"verdict": "reject", "kind": "duplicate", "offender": ["p1"], "nomodel": True}, "parameter"
    p = base()
    p["extra"] = "alias dep1 := r1\n"
    yield p, {"verdict": "reject", "kind": "duplicate", "offender": ["dep1"], "nomodel": True}, "alias-recipe"
    p = base()
    p["recipes"][0]["priors"][0]["target"] = "nosuch"
    yield p, {"verdict": "reject", "kind": "unknownDependency", "offender": ["nosuch"]}, "unknown-dependency"
    p = base()
    p["recipes"][0]["subs"][0]["target"] = "nosuch"
    yield p, {"verdict": "reject", "kind": "unknownDependency", "offender": ["nosuch"]}, "unknown-subsequent"
    p = base()
    p["extra"] = "alias al := nosuch\n"
    yield p, {"verdict": "reject", "kind": "unknownAlias", "offender": ["nosuch"], "nomodel": True}, "unknown-alias-target"


def ignore_comment_cases():
    # the resolver skips comment lines under ignore-comments; every evaluated line must still be checked
    p = base()
    p["settings"].append("set ignore-comments")
    p["recipes"][0]["script"] = True
    p["recipes"][0]["body"] = [line("[T] x"), line("# ", Var("undef"))]
    yield p, {"verdict": "reject-or-never-evaluated", "kind": "undefinedVariable", "offender": ["undef"]}, "script-comment"
    p = base()
    p["settings"].append("set ignore-comments")
    p["recipes"][0]["body"] = [line("[T] x \\"), line("# ", Var("undef"))]
    yield p, {"verdict": "reject-or-never-evaluated", "kind": "undefinedVariable", "offender": ["undef"]}, "continued-comment"
    p = base()
    p["settings"].append("set ignore-comments")
    p["recipes"][0]["body"] = [line("# ", Var("undef")), line("[T] x")]
    yield p, {"verdict": "reject-or-never-evaluated", "kind": "undefinedVariable", "offender": ["undef"]}, "plain-comment"
    # the complete matrix: bodies of two and three lines over {command, command continued with `\`, comment, comment ending
    # in `\`}, the undefined name in each line in turn, linewise and as a script: a line the runner evaluates must have
    # been checked
    kinds = {"cmd": ("[T] x ", ""), "cmd-cont": ("[T] x ", " \\"), "comment": ("# c ", ""), "comment-cont": ("# c ", " \\")}
    for n in (2, 3):
        for combo in itertools.product(kinds, repeat=n):
            for j in range(n):
                for script in (False, True):
                    p = base()
                    p["settings"].append("set ignore-comments")
                    p["recipes"][0]["script"] = script
                    body = []
                    for i, k in enumerate(combo):
                        pre, post = kinds[k]
                        body.append(line(pre, Var("undef"), post) if i == j else line(pre + "y" + post))
                    p["recipes"][0]["body"] = body
                    yield p, {"verdict": "reject-or-never-evaluated", "kind": "undefinedVariable", "offender": ["undef"]}, \
                        "matrix-%s-%d-%s" % ("+".join(combo), j, "script" if script else "lines")


def random_valid(rng):
    """A valid program by construction: expressions only use names in scope."""
    p = base()
    p["assigns"] = []
    names = []

    def expr(scope, depth=0):
        x = rng.random()
        if depth > 3 or x < 0.3:
            if scope and rng.random() < 0.6:
                return Var(rng.choice(scope))
            if rng.random() < 0.15:
                return Var(rng.choice(["HEX", "HEXUPPER", "BOLD", "NORMAL"]))
            return Str(rng.choice(["a", "b", "", "x y"]))
        k = rng.choice(["concat", "join", "joinr", "and", "or", "cond", "assert", "group", "u", "uo", "up", "b", "bp", "t"])
        e = lambda: expr(scope, depth + 1)
        if k == "concat":
            return Concat(Group(e()), Group(e()))
        if k == "join":
            return JoinL(Group(e()), Group(e()))
        if k == "joinr":
            return JoinR(Group(e()))
        if k == "and":
            return Group(And(Group(e()), Group(e())))
        if k == "or":
            return Group(Or(Group(e()), Group(e())))
        if k == "cond":
            return Cond(Group(e()), rng.choice(["eq", "ne"]), Group(e()), e(), e())
        if k == "assert":
            a = e()
            return Assert(Group(a), "eq", Group(a), e())
        if k == "group":
            return Group(e())
        if k == "u":
            return Call(rng.choice(["uppercase", "trim", "quote", "lowercase"]), e())
        if k == "uo":
            return Call("env", Str("NOSUCH_" + rng.choice("ABC")), e())
        if k == "up":
            return Call("trim", Call("shell", Str("[SH]"), e()))
        if k == "b":
            return Call(rng.choice(["append", "prepend", "trim_end_match"]), e(), e())
        if k == "bp":
            return Call("join", e(), e(), e())
        return Call("replace", e(), Str("a"), e())

    for i in range(rng.randint(1, 5)):
        n = "w%d" % i
        # forward references are allowed between assignments as long as there is no cycle: use earlier ones only,
        # then shuffle the textual order
        p["assigns"].append([n, expr(names)])
        names.append(n)
    rng.shuffle(p["assigns"])
    nrec = rng.randint(1, 4)
    recs = []
    for i in range(nrec):
        params = []
        pn = []
        for k in range(rng.randint(0, 3)):
            name = "a%d" % k
            dflt = expr(names + pn) if (params and params[-1]["default"] is not None) or rng.random() < 0.4 else None
            params.append({"name": name, "kind": "singular", "default": dflt})
            pn.append(name)
        scope = names + pn
        body = [line("[B%d] " % i, expr(scope), " ", expr(scope))]
        if rng.random() < 0.3:
            body.append(line("# ", expr(scope)))
        if rng.random() < 0.3:
            body.append(line("[C%d] \\" % i))
            body.append(line("  ", expr(scope)))
        recs.append({"name": "t%d" % i, "params": params, "priors": [], "subs": [], "body": body, "script": rng.random() < 0.25})
    for i, r in enumerate(recs):
        scope = names + [x["name"] for x in r["params"]]
        for kind in ("priors", "subs"):
            for _ in range(rng.choice([0, 0, 1, 2])):
                if i + 1 < nrec:
                    t = recs[rng.randrange(i + 1, nrec)]
                    req = sum(1 for x in t["params"] if x["default"] is None)
                    cnt = rng.randint(req, len(t["params"]))
                    r[kind].append({"target": t["name"], "args": [expr(scope) for _ in range(cnt)]})
    p["recipes"] = recs
    return p, {"verdict": "accept"}


# ---------------------------------------------------------------------------------------------
# running


def classify(stderr):
    pats = [
        (r"Variable `([^`]*)` not defined", "undefinedVariable"),
        (r"Variable `([^`]*)` is defined in terms of itself", "circularVariable"),
        (r"Variable `([^`]*)` depends on its own value", "circularVariable"),
        (r"Recipe `([^`]*)` depends on itself", "circularRecipe"),
        (r"Recipe `([^`]*)` has circular dependency", "circularRecipe"),
        (r"Recipe `[^`]*` has unknown dependency `([^`]*)`", "unknownDependency"),
        (r"Dependency `([^`]*)` got \d+ arguments? but takes", "depArity"),
        (r"Function `([^`]*)` called with \d+ arguments? but takes", "badCall"),
        (r"Call to unknown function `([^`]*)`", "badCall"),
        (r"(?:Recipe|Alias|Variable) `([^`]*)` (?:first defined|has multiple definitions|defined on line)", "duplicate"),
        (r"Recipe `[^`]*` has duplicate parameter `([^`]*)`", "duplicate"),
        (r"Alias `[^`]*` has an unknown target `([^`]*)`", "unknownAlias"),
        (r"Non-default parameter `([^`]*)` follows default parameter", "paramOrder"),
        (r"Parameter `([^`]*)` follows variadic parameter", "paramOrder"),
    ]
    for pat, kind in pats:
        m = re.search(pat, stderr)
        if m:
            return kind, m.group(1)
    if "nternal" in stderr and "error" in stderr:
        return "internal", stderr[:200]
    return "other", stderr[:200]


def invocation(r):
    return [r["name"]] + ["w"] * sum(1 for x in r["params"] if x["default"] is None and x["kind"] != "star")


def run_case(arg):
    p, exp, tag = arg
    text = print_prog(p)
    with C.scratch("c03") as d:
        open(os.path.join(d, "justfile"), "w").write(text)
        logp = os.path.join(d, "vsh.log")
        env = dict(C.BASE_ENV)
        env.update({"HOME": d, "TMPDIR": d, "VSH_LOG": logp})
        q = subprocess.run([C.JUST, "--dump"], cwd=d, env=env, stdin=subprocess.DEVNULL, stdout=subprocess.PIPE, stderr=subprocess.PIPE)
        res = {"dump_rc": q.returncode, "dump_err": q.stderr.decode("utf-8", "replace")[-600:], "runs": []}
        if exp.get("norun"):
            return res
        # run every recipe: a rejected justfile must run nothing; an accepted one must never hit an internal error
        for r in p["recipes"]:
            if os.path.exists(logp):
                os.unlink(logp)
            q = subprocess.run([C.JUST] + invocation(r), cwd=d, env=env, stdin=subprocess.DEVNULL, stdout=subprocess.PIPE,
                               stderr=subprocess.PIPE)
            err = q.stderr.decode("utf-8", "replace")
            res["runs"].append({"argv": invocation(r), "rc": q.returncode, "spawned": len(C.read_vsh_log(logp)),
                                "internal": bool(re.search(r"nternal (runtime )?error|panicked", err)),
                                "stderr": err[-400:]})
        return res


# ---- a name defined twice: every combination of kinds, orders and settings

DUP_KINDS = ["recipe", "alias", "module", "variable"]


def dup_matrix(tier, seed):
    atoms = [(k, n) for k in DUP_KINDS for n in ("a", "b")]
    seqs = [list(x) for n in (2, 3) for x in itertools.product(atoms, repeat=n)]
    cases = [{"items": s_, "allow_recipes": ar, "allow_vars": av} for s_ in seqs for ar in (False, True) for av in (False, True)]
    # the same sequences with the definitions from position `split` on written in an imported file (the import statement
    # above or below the importer's own definitions): an import contributes its definitions as if written there
    cases += [dict(c, split=k, import_first=f) for c in cases for k in range(1, len(c["items"])) for f in (False, True)]
    total = len(cases)
    if tier == "quick":
        rng = C.case_rng(seed, 0, "c03-dup")
        rng.shuffle(cases)
        # all two-item cases, a sample of the three-item ones
        cases = [c for c in cases if len(c["items"]) == 2] + [c for c in cases if len(c["items"]) == 3 and "split" not in c][:700] + \
            [c for c in cases if len(c["items"]) == 3 and "split" in c][:500]
    return cases, total


def dup_text(c, part="root"):
    t = 'set shell := ["%s", "-c"]\n' % C.VSH
    if c["allow_recipes"]:
        t += "set allow-duplicate-recipes\n"
    if c["allow_vars"]:
        t += "set allow-duplicate-variables\n"
    t += "\nt:\n  [T]\n\n"
    split = c.get("split", len(c["items"]))
    if part == "import":
        t = ""
    elif "split" in c and c["import_first"]:
        t += "import 'imp.just'\n\n"
    for i, (k, n) in enumerate(c["items"]):
        if (i >= split) != (part == "import"):
            continue
        if k == "recipe":
            t += "%s:\n  [R%d]\n\n" % (n, i)
        elif k == "alias":
            t += "alias %s := t\n\n" % n
        elif k == "module":
            t += "mod %s 'sub.just'\n\n" % n
        else:
            t += "%s := 'v%d'\n\n" % (n, i)
    if part == "root" and "split" in c and not c["import_first"]:
        t += "import 'imp.just'\n"
    return t


def dup_spec(c):
    """The statement, directly: a name may be defined twice only by two recipes under allow-duplicate-recipes or by two
    assignments under allow-duplicate-variables (variables are a namespace of their own)."""
    clash = set()
    its = c["items"]
    for i in range(len(its)):
        for j in range(i + 1, len(its)):
            (k1, n1), (k2, n2) = its[i], its[j]
            if n1 != n2:
                continue
            if (k1 == "variable") != (k2 == "variable"):
                continue
            if k1 == "variable":
                if not c["allow_vars"]:
                    clash.add(n1)
            elif not (k1 == "recipe" and k2 == "recipe" and c["allow_recipes"]):
                clash.add(n1)
    return clash


def run_dup(c):
    with C.scratch("c03d") as d:
        open(os.path.join(d, "justfile"), "w").write(dup_text(c))
        open(os.path.join(d, "sub.just"), "w").write("s:\n  [S]\n")
        if "split" in c:
            open(os.path.join(d, "imp.just"), "w").write(dup_text(c, "import"))
        logp = os.path.join(d, "vsh.log")
        env = dict(C.BASE_ENV)
        env.update({"HOME": d, "TMPDIR": d, "VSH_LOG": logp})
        out = {"runs": []}
        for argv in (["--summary"], ["t"]):
            q = subprocess.run([C.JUST] + argv, cwd=d, env=env, stdin=subprocess.DEVNULL, stdout=subprocess.PIPE, stderr=subprocess.PIPE)
            out["runs"].append({"argv": argv, "rc": q.returncode, "stderr": q.stderr.decode("utf-8", "replace")[-400:]})
        out["spawned"] = len(C.read_vsh_log(logp))
        return out


def run(report):
    tier = report.tier
    just, bt = C.build_just()
    changed, notes = extract.regenerate()
    C.proof_stage(report, "C03", thorough=(tier == "thorough"))
    drv = C.Driver()
    functions = extract.extract()[0] or []
    cases = []
    W = wrappers()
    for ctx in CONTEXTS:
        for wn, w in W.items():
            p, exp = inject_undefined(ctx, wn, w)
            cases.append((p, exp, "undefined/%s/%s" % (ctx, wn)))
    nv = 3 if tier == "quick" else 3
    for edges in digraphs(nv):
        p, exp = var_graph_case(nv, edges)
        cases.append((p, exp, "vargraph/%s" % edges))
        for tag, names in (("const", ["HEX", "BOLD", "NORMAL"]), ("mixed", ["g0", "HEX", "g2"])):
            p, exp = var_graph_case(nv, edges, names)
            cases.append((p, exp, "vargraph-%s/%s" % (tag, edges)))
        p, exp = recipe_graph_case(nv, edges)
        cases.append((p, exp, "recipegraph/%s" % edges))
    if tier == "thorough":
        rng = C.case_rng(report.seed, 1, "c03-g4")
        all4 = list(digraphs(4))
        for edges in rng.sample(all4, 6000):
            p, exp = var_graph_case(4, edges)
            cases.append((p, exp, "vargraph4/%s" % edges))
            p, exp = recipe_graph_case(4, edges)
            cases.append((p, exp, "recipegraph4/%s" % edges))
    for p, exp, tag in dep_arity_cases():
        cases.append((p, exp, "deparity/" + tag))
    for p, exp, tag in function_arity_cases(functions):
        cases.append((p, exp, "fnarity/" + tag))
    for p, exp, tag in duplicate_cases():
        cases.append((p, exp, "dup/" + tag))
    for p, exp, tag in parameter_order_cases():
        cases.append((p, exp, "paramorder/" + tag))
    for p, exp, tag in ignore_comment_cases():
        cases.append((p, exp, "ignore-comments/" + tag))
    nrand = 400 if tier == "quick" else 15000
    for i in range(nrand):
        rng = C.case_rng(report.seed, i, "c03")
        p, exp = random_valid(rng)
        cases.append((p, exp, "random-valid/%d" % i))
    results = C.pmap(run_case, cases)
    model = drv.pbatch([{"op": "analyze", "module": model_of(p)} for p, _, _ in cases], chunk=500)
    # parameter lists: the analyzer's verdict against Just.Args.validParams (the hypothesis of C05's bind_total)
    pcases = [(exp, r) for (p_, exp, tag_), r in zip(cases, results) if "params_model" in exp]
    pmod = drv.pbatch([{"op": "validparams", "params": exp["params_model"]} for exp, _ in pcases], chunk=2000)
    for (exp, r), m in zip(pcases, pmod):
        if "fatal" in m:
            raise C.BuildError("model driver: " + m["fatal"])
        if m["valid"] != (r["dump_rc"] == 0):
            report.failure("c03-model-validparams", "Just.Args.validParams and the analyzer disagree on a parameter list",
                           {"correspondence": "C03 parameter lists vs Just.Args.validParams", "params": exp["params_model"], "model": m,
                            "impl_accepts": r["dump_rc"] == 0, "stderr": r["dump_err"][-200:]}, no_input=True)
            break
    # duplicate definitions: kinds x orders x settings, against the statement and against Just.Define
    dcases, dtotal = dup_matrix(tier, report.seed)
    dres = C.pmap(run_dup, dcases)
    dmod = drv.pbatch([{"op": "define", "items": [{"name": n, "kind": k} for k, n in c["items"] if k != "variable"],
                        "vars": [n for k, n in c["items"] if k == "variable"], "allowRecipes": c["allow_recipes"],
                        "allowVars": c["allow_vars"]} for c in dcases], chunk=2000)
    dstats = {"cases": len(dcases), "space": dtotal, "rejected": 0, "accepted": 0}
    for c, r, m in zip(dcases, dres, dmod):
        if "fatal" in m:
            raise C.BuildError("model driver: " + m["fatal"])
        clash = dup_spec(c)
        replay = {"justfile": dup_text(c), "files": dict({"sub.just": "s:\n  [S]\n"}, **({"imp.just": dup_text(c, "import")} if "split" in c else {})), "case": c, "observed": r, "expected_clashing_names": sorted(clash)}
        rejected = all(x["rc"] != 0 for x in r["runs"])
        accepted = all(x["rc"] == 0 for x in r["runs"])
        kinds = "+".join(sorted({k for k, n in c["items"] if n in clash})) if clash else "none"
        if clash:
            dstats["rejected"] += 1
            if not rejected:
                report.failure("c03-duplicate-accepted:%s" % kinds, "names %s are defined twice without the matching allow-duplicate setting, but the justfile was accepted" % sorted(clash), replay)
                continue
            if r["spawned"]:
                report.failure("c03-duplicate-ran", "a justfile with a duplicate definition ran a command", replay)
                continue
            if not any(("`%s`" % n) in r["runs"][0]["stderr"] for n in clash) or "error" not in r["runs"][0]["stderr"]:
                report.failure("c03-duplicate-message", "the error does not name the name defined twice", replay)
                continue
        else:
            dstats["accepted"] += 1
            if not accepted:
                report.failure("c03-duplicate-rejected:%s" % "+".join(sorted({k for k, _ in c["items"]})), "a justfile without forbidden duplicates was rejected: " + r["runs"][0]["stderr"][-150:], replay)
                continue
        if m["accepts"] != (not clash):
            report.failure("c03-model-define", "Just.Define.accepts disagrees with the implementation and the statement",
                           dict(replay, correspondence="C03 duplicate definitions vs Just.Define.accepts", model=m), no_input=True)
    stats = {"cases": len(cases), "duplicates": dstats, "by_family": {}, "rejected": 0, "accepted": 0, "recipe_runs": 0, "table_regenerated": changed,
             "extract_notes": notes, "functions_in_table": len(functions)}
    distinct = set()
    samples = []
    for (p, exp, tag), r, m in zip(cases, results, model):
        if "fatal" in m:
            raise C.BuildError("model driver: " + m["fatal"])
        fam = tag.split("/")[0]
        stats["by_family"][fam] = stats["by_family"].get(fam, 0) + 1
        text = print_prog(p)
        distinct.add(text)
        kind, off = classify(r["dump_err"]) if r["dump_rc"] != 0 else ("accepted", None)
        stats["rejected" if r["dump_rc"] != 0 else "accepted"] += 1
        stats["recipe_runs"] += len(r["runs"])
        replay = {"tag": tag, "justfile": text, "expected": exp, "observed": {"dump_rc": r["dump_rc"], "kind": kind, "offender": off,
                                                                                 "stderr": r["dump_err"][-300:], "runs": r["runs"]}}
        rejected = r["dump_rc"] != 0
        if rejected:
            ran = [x for x in r["runs"] if x["spawned"] or x["rc"] == 0]
            if ran:
                report.failure("c03-rejected-but-ran", "the justfile is rejected by --dump but an invocation ran something", replay)
                continue
        internal = [x for x in r["runs"] if x["internal"]]
        if exp["verdict"] == "reject":
            if not rejected:
                sig = "c03-accepted:%s:%s" % (exp["kind"], "/".join(tag.split("/")[1:3]) if fam == "undefined" else fam)
                report.failure(sig, "defect (%s %s) was accepted%s" % (exp["kind"], exp["offender"], "; run fails with an internal error" if internal else ""), replay)
                continue
            if exp.get("any_rejection"):
                pass
            elif kind != exp["kind"] or off not in exp["offender"]:
                report.failure("c03-wrong-offender:%s" % fam, "rejected, but the error does not name the offender: got %s `%s`" % (kind, off), replay)
                continue
            # the chain the message spells out must exist in the program: every step a declared dependency, and its last
            # element a name met before (the assignment resolver prints the whole path that led into the cycle)
            mc = re.search(r"(?:has circular dependency|depends on its own value:) `([^`]*)`", r["dump_err"])
            if mc and exp.get("edges") is not None:
                chain = mc.group(1).split(" -> ")
                steps_ok = all((a, b) in exp["edges"] for a, b in zip(chain, chain[1:]))
                if len(chain) < 2 or chain[-1] not in chain[:-1] or not steps_ok:
                    report.failure("c03-wrong-cycle:%s" % fam, "rejected, but the cycle named in the message (%s) is not a cycle of the justfile" % mc.group(1), replay)
                    continue
        elif exp["verdict"] == "accept":
            if rejected:
                report.failure("c03-valid-rejected:%s" % fam, "a defect-free justfile was rejected: %s `%s`" % (kind, off), replay)
                continue
            if internal:
                report.failure("c03-internal-at-runtime:%s" % fam, "accepted justfile fails at run time with an internal error", replay)
                continue
            bad = [x for x in r["runs"] if x["rc"] != 0]
            if bad and not exp.get("norun"):
                report.failure("c03-run-failed:%s" % fam, "accepted justfile: a recipe failed: %s" % bad[0]["stderr"][-200:], replay, no_input=True)
                continue
        else:  # reject-or-never-evaluated (ignore-comments)
            if not rejected and internal:
                report.failure("c03-ignore-comments-gap:%s" % tag.split("/")[1],
                               "set ignore-comments: a comment-looking line is skipped by the resolver but evaluated at run time (internal error)", replay)
                continue
        # model correspondence
        if exp.get("nomodel"):
            continue
        if m["ok"] == rejected and exp["verdict"] != "reject-or-never-evaluated":
            report.failure("c03-model:%s" % fam, "Lean model verdict differs from the implementation",
                           dict(replay, correspondence="C03 vs Just.Analyzer.analyze", model=m), no_input=True)
            continue
        if not m["ok"] and rejected and exp["verdict"] == "reject":
            mk = list(m["error"].keys())[0] if isinstance(m["error"], dict) else m["error"]
            if mk != exp["kind"] and not (mk == "badCall" and exp["kind"] == "badCall") and exp["kind"] != "duplicate":
                report.failure("c03-model-kind:%s" % fam, "Lean model reports %s, implementation %s" % (mk, kind),
                               dict(replay, correspondence="C03 error kind vs Just.Analyzer.analyze", model=m), no_input=True)
        if len(samples) < 3 and fam == "undefined" and tag.endswith("nested"):
            samples.append({"tag": tag, "justfile": text, "observed": {"kind": kind, "offender": off}})
    report.coverage.update({
        "evaluations": len(cases),
        "distinct_nontrivial": len(distinct),
        "rule": "undefined name injected in %d contexts x %d constructor child positions (complete at depth 1 + one deep nesting); all digraphs on 3 nodes as variable and as recipe dependency graphs (thorough: + 6000 sampled 4-node digraphs each); dependency arity (8 target signatures x 0..3 arguments x prior/subsequent); every parameter list of 2 and 3 parameters over {required, defaulted} x {singular, +, *}; every function of the regenerated table + abbreviations + unknown names x 0..4 arguments; duplicate definitions: all sequences of 2 and 3 definitions over {recipe, alias, module, variable} x 2 names x both allow-duplicate settings, written in one file and divided at every position between the file and a file it imports (quick: all pairs, a sample of triples); ignore-comments corner cases; random valid programs; every recipe of every program is also RUN (rejected => nothing ran; accepted => no internal error); distinct = distinct justfile texts" % (len(CONTEXTS), len(W)),
        "samples": samples,
        "exhaustive": True,
        "traces_validated_against_impl": len(cases),
        "stats": stats,
        "build_s": round(bt, 1),
    })
    report.assumptions += [
        "error messages are mapped to (kind, offender) by pattern; wording itself is not compared",
        "for cyclic graphs any node on a cycle is accepted as the named offender",
    ]


def replay(report, path):
    body = json.load(open(path))
    C.build_just()
    rp = body["replay"]
    with C.scratch("c03r") as d:
        open(os.path.join(d, "justfile"), "w").write(rp["justfile"])
        q = subprocess.run([C.JUST, "--dump"], cwd=d, env=dict(C.BASE_ENV, HOME=d), stdout=subprocess.PIPE, stderr=subprocess.PIPE)
        print(json.dumps({"dump_rc": q.returncode, "stderr": q.stderr.decode("utf-8", "replace")[-500:], "expected": rp["expected"]}, indent=1))
    report.coverage.update({"obligations": 1, "discharged": 1, "checker_cmd": "replay", "trusted_base": []})
