"""C16 - justfile discovery picks the nearest justfile; fallback climbs as documented."""
import itertools
import json
import os
import subprocess

from . import common as C

PLACEMENTS = {
    "none": [],
    "justfile": ["justfile"],
    "dot": [".justfile"],
    "upper": ["JUSTFILE"],
    "mixed": [".Justfile"],
    "dotupper": [".JUSTFILE"],
    "bothcase": ["jUSTfile", ".JustFile"],
    "both": ["justfile", ".justfile"],
    "dupcase": ["justfile", "Justfile"],
    "dir": [],          # a DIRECTORY named `justfile`: not a file named justfile, the level has none
    "devnull": ["justfile"],   # a symbolic link named `justfile` to /dev/null: an (empty) justfile like any other
}
DIRECTORIES = {"dir": ["justfile"]}


def level_choices(tier):
    names = list(PLACEMENTS)
    out = []
    for pl in names:
        if pl == "devnull":
            out.append({"placement": pl, "knows": False, "fallback": False})
        elif PLACEMENTS[pl]:
            for knows, fb in itertools.product([False, True], repeat=2):
                out.append({"placement": pl, "knows": knows, "fallback": fb})
        else:
            out.append({"placement": pl, "knows": False, "fallback": False})
    return out


def space(tier, seed):
    depth = 3 if tier == "quick" else 4
    ch = level_choices(tier)
    cases = []
    # override-slash: a leading NAME=VALUE word whose value contains `/` is an override, not a directory: like `plain`
    forms = ["plain", "dir-slash", "dotdot", "explicit", "explicit-wd", "override-slash", "dir-missing"]
    rng = C.case_rng(seed, 0, "c16")
    allc = list(itertools.product(ch, repeat=depth))
    total = len(allc) * depth * len(forms)
    budget = 2500 if tier == "quick" else 40000
    for _ in range(budget):
        levels = list(rng.choice(allc))
        inv = rng.randrange(depth)          # index of the invocation level (0 = top of the tree, depth-1 = deepest)
        form = rng.choice(forms)
        cases.append({"levels": levels, "inv": inv, "form": form})
    return cases, total


def build_tree(d, levels):
    """levels[0] is the top directory t, levels[k] is t/d1/../dk.  Returns list of directory paths."""
    paths = []
    cur = os.path.join(d, "t")
    for k, lv in enumerate(levels):
        if k:
            cur = os.path.join(cur, "d%d" % k)
        os.makedirs(cur, exist_ok=True)
        paths.append(cur)
        for name in DIRECTORIES.get(lv["placement"], []):
            os.makedirs(os.path.join(cur, name), exist_ok=True)
        # version-control and project markers mean nothing to the search: half of the levels carry some
        if (k + len(lv["placement"])) % 2 == 0:
            for name in ([".git", ".hg"], [".svn", "_darcs", ".bzr"], [".git", "Cargo.toml", "package.json"])[k % 3]:
                if name.startswith(".") or name.startswith("_"):
                    os.makedirs(os.path.join(cur, name), exist_ok=True)
                else:
                    open(os.path.join(cur, name), "w").close()
        if lv["placement"] == "devnull":
            os.symlink("/dev/null", os.path.join(cur, "justfile"))
            continue
        for name in PLACEMENTS[lv["placement"]]:
            text = 'set shell := ["%s", "-c"]\n' % C.VSH
            if lv["fallback"]:
                text += "set fallback\n"
            text += "ov := 'd'\nother:\n  [other]\n"
            if lv["knows"]:
                text += "r:\n  [L%d:%s]\n" % (k, name)
            open(os.path.join(cur, name), "w").write(text)
    return paths


def run_case(c):
    with C.scratch("c16") as d:
        d = os.path.realpath(d)
        paths = build_tree(d, c["levels"])
        logp = os.path.join(d, "vsh.log")
        env = dict(C.BASE_ENV)
        env.update({"HOME": d, "TMPDIR": d, "VSH_LOG": logp})
        inv = c["inv"]
        depth = len(c["levels"])
        start = inv            # level index where the search starts
        cwd = paths[inv]
        argv = ["r"]
        explicit_level = None
        if c["form"] == "dir-slash" and inv + 1 < depth:
            # from an ancestor: `just REL/r` where REL leads down to a deeper level
            target = depth - 1
            rel = os.path.relpath(paths[target], paths[inv])
            argv = [rel + "/r"]
            start = target
        elif c["form"] == "dir-missing":
            # `just DIR/r` where DIR does not exist or is a regular file: there is no such place to run `just r` from
            open(os.path.join(cwd, "plain.txt"), "w").write("x\n")
            argv = [["nosuch/r", "nosuch/deeper/r", "plain.txt/r", "./nosuch/r"][(inv + len(c["levels"][0]["placement"])) % 4]]
        elif c["form"] == "dotdot" and inv > 0:
            argv = ["../r"]
            start = inv - 1
        elif c["form"] == "override-slash" and not any(lv["placement"] == "devnull" for lv in c["levels"]):
            # (an empty justfile has no variable to override)
            argv = [["ov=x/y", "ov=/abs/p", "ov=../", "ov=d1/"][inv % 4], "r"]
        elif c["form"] in ("explicit", "explicit-wd"):
            # explicit --justfile pointing at some level that has a (single) candidate
            cands = [k for k, lv in enumerate(c["levels"]) if len(PLACEMENTS[lv["placement"]]) >= 1]
            if cands:
                explicit_level = cands[len(cands) // 2]
                name = PLACEMENTS[c["levels"][explicit_level]["placement"]][0]
                argv = ["--justfile", os.path.join(paths[explicit_level], name)]
                if c["form"] == "explicit-wd":
                    argv += ["--working-directory", paths[0]]
                argv += ["r"]
        p = subprocess.run([C.JUST] + argv, cwd=cwd, env=env, stdin=subprocess.DEVNULL, stdout=subprocess.PIPE,
                           stderr=subprocess.PIPE)
        entries = C.read_vsh_log(logp)
        stderr = p.stderr.decode("utf-8", "replace")
        if entries:
            text = entries[0]["argv"][2]
            lvl, name = text[2:-1].split(":")
            obs = {"ran": int(lvl), "name": name, "cwd": os.path.relpath(os.path.realpath(entries[0]["cwd"]), d)}
        elif "No justfile found" in stderr:
            obs = {"error": "notFound"}
        elif "Multiple candidate justfiles found" in stderr:
            obs = {"error": "multiple"}
        elif "does not contain recipe" in stderr:
            obs = {"error": "unknownRecipe"}
        else:
            obs = {"error": "other", "stderr": stderr[-300:]}
        obs["rc"] = p.returncode
        return {"obs": obs, "start": start, "explicit_level": explicit_level, "argv": [a.replace(d, "<D>") for a in argv],
                "cwd": os.path.relpath(cwd, d), "paths": [os.path.relpath(x, d) for x in paths], "stderr": stderr[-300:]}


def spec(c, r):
    """The statement, written directly over the tree."""
    levels = c["levels"]
    if r["explicit_level"] is not None:
        lv = levels[r["explicit_level"]]
        name = PLACEMENTS[lv["placement"]][0]
        if lv["knows"]:
            cwd = r["paths"][0] if c["form"] == "explicit-wd" else r["paths"][r["explicit_level"]]
            return {"ran": r["explicit_level"], "name": name, "cwd": cwd}
        return {"error": "unknownRecipe"}
    k = r["start"]
    first = True
    err_level = None
    while k >= 0:
        cands = PLACEMENTS[levels[k]["placement"]]
        if not cands:
            k -= 1
            continue
        if len(cands) > 1:
            return {"error": "multiple"} if first else {"error": "unknownRecipe"}
        lv = levels[k]
        if lv["knows"]:
            return {"ran": k, "name": cands[0], "cwd": r["paths"][k]}
        if not lv["fallback"]:
            return {"error": "unknownRecipe"}
        first = False
        k -= 1
    return {"error": "notFound"} if first else {"error": "unknownRecipe"}


def model_levels(c, r):
    if r["explicit_level"] is not None:
        lv = c["levels"][r["explicit_level"]]
        return [{"entries": PLACEMENTS[lv["placement"]] + ["zz"], "knows": lv["knows"], "fallback": lv["fallback"]}], True
    out = []
    for k in range(r["start"], -1, -1):
        lv = c["levels"][k]
        out.append({"entries": PLACEMENTS[lv["placement"]] + (["d%d" % (k + 1)] if k + 1 < len(c["levels"]) else []),
                    "knows": lv["knows"], "fallback": lv["fallback"]})
    # the directories above the tree (scratch dir, /dev/shm, /dev, /) hold no candidates
    out += [{"entries": ["t"], "knows": False, "fallback": False}] * 2
    return out, False


def run(report):
    tier = report.tier
    just, bt = C.build_just()
    C.proof_stage(report, "C16", thorough=(tier == "thorough"))
    drv = C.Driver()
    cases, total = space(tier, report.seed)
    results = C.pmap(run_case, cases)
    reqs = []
    for c, r in zip(cases, results):
        lv, ex = model_levels(c, r)
        reqs.append({"op": "search", "levels": lv, "explicit": ex})
    model = drv.pbatch(reqs, chunk=3000)
    stats = {"cases": len(cases), "space": total, "forms": {}, "outcomes": {}, "ran_above_start": 0}
    distinct = set()
    samples = []
    for c, r, m in zip(cases, results, model):
        if "fatal" in m:
            raise C.BuildError("model driver: " + m["fatal"])
        stats["forms"][c["form"]] = stats["forms"].get(c["form"], 0) + 1
        want = spec(c, r)
        obs = {k: v for k, v in r["obs"].items() if k not in ("rc", "stderr")}
        key = "ran" if "ran" in obs else obs["error"]
        stats["outcomes"][key] = stats["outcomes"].get(key, 0) + 1
        if "ran" in want and want["ran"] != r["start"] and r["explicit_level"] is None:
            stats["ran_above_start"] += 1
        distinct.add(json.dumps([c, obs], sort_keys=True))
        replay = {"case": c, "argv": r["argv"], "cwd": r["cwd"], "dirs": r["paths"], "observed": r["obs"], "expected": want}
        if c["form"] == "dir-missing":
            if "ran" in obs or r["obs"]["rc"] == 0:
                report.failure("c16-ran-from-missing-directory", "`just %s`: the directory does not exist, yet %s" % (r["argv"][0], obs),
                               dict(replay, expected="an error, nothing runs"))
            continue
        if obs != want:
            what = "ran-wrong-justfile" if "ran" in obs and "ran" in want and (obs["ran"], obs["name"]) != (want["ran"], want["name"]) else (
                "wrong-cwd" if "ran" in obs and "ran" in want else "wrong-outcome")
            report.failure("c16-%s:%s" % (what, c["form"]), "discovery/fallback outcome %s, documented %s" % (obs, want), replay)
            continue
        # model correspondence
        o = m["outcome"]
        if isinstance(o, dict) and "ran" in o:
            lvl = r["explicit_level"] if r["explicit_level"] is not None else r["start"] - o["ran"]["level"]
            mo = {"ran": lvl}
            if r["explicit_level"] is None:
                mo["name"] = o["ran"]["name"]
        elif isinstance(o, dict):
            mo = {"error": list(o.keys())[0]}
        else:
            mo = {"error": o}
        cmp_obs = {"ran": obs["ran"], **({"name": obs["name"]} if "name" in mo else {})} if "ran" in obs else {"error": obs["error"]}
        if mo != cmp_obs:
            report.failure("c16-model", "Lean model and implementation disagree (statement oracle holds)",
                           dict(replay, correspondence="C16 discovery vs Just.Search.run", model=o), no_input=True)
        if len(samples) < 3 and "ran" in want and want["ran"] != r["start"] and c["form"] == "plain":
            samples.append({"levels": c["levels"], "invoked_from": r["cwd"], "argv": r["argv"], "observed": obs})
    report.coverage.update({
        "evaluations": len(cases),
        "distinct_nontrivial": len(distinct),
        "rule": "random sample of: directory chains of depth %d x per-level candidate placement {none, justfile, .justfile, JUSTFILE, .Justfile, .JUSTFILE%s, both names, both names in mixed case%s, a directory named justfile, a symbolic link named justfile to /dev/null} x version-control / project marker entries on half of the levels x (knows recipe, set fallback) x invocation level x form {just r, just REL/r from an ancestor, just ../r, --justfile, --justfile + --working-directory, just NAME=a/b r, just DIR/r with a DIR that does not exist or is a regular file}; distinct = distinct (case, outcome)" % (
            3 if tier == "quick" else 4, "", ", two case variants of one name"),
        "samples": samples,
        "traces_validated_against_impl": len(cases),
        "stats": stats,
        "build_s": round(bt, 1),
    })
    report.assumptions += [
        "the ancestors of the scratch directory (/dev/shm, /dev, /) contain no justfile",
        "a directory named `justfile` would count as a candidate in the code; not generated",
        "file-system case sensitivity as on Linux",
    ]


def replay(report, path):
    body = json.load(open(path))
    C.build_just()
    r = run_case(body["replay"]["case"])
    print(json.dumps({"observed": r["obs"], "expected": spec(body["replay"]["case"], r)}, indent=1))
    report.coverage.update({"obligations": 1, "discharged": 1, "checker_cmd": "replay", "trusted_base": []})
    obs = {k: v for k, v in r["obs"].items() if k not in ("rc", "stderr")}
    if obs != spec(body["replay"]["case"], r):
        report.failure(body["signature"], "replay still fails", body["replay"])
