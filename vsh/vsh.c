/* vsh - logging fake shell / interpreter for the just verification harness.
 *
 * Every invocation appends one JSON line to $VSH_LOG:
 *   {"pid":N,"argv":[hex...],"cwd":hex,"env":{hex:hex,...},"script":hex|null,"tty":0}
 * (all strings hex encoded so that arbitrary bytes survive), optionally appends
 * "\001SPAWN\n" to the file $VSH_MARK (just's stderr file) so that spawns are ordered relative to
 * just's own stderr output, and then follows the fault plan in $VSH_PLAN:
 *
 *   plan   := entry (';' entry)*
 *   entry  := KEY '=' action (',' action)*
 *   action := exit:N | sig:N | out:HEX | err:HEX | block:PATH | ignore:N | trap:N | report:PATH | touch:PATH
 *
 * An entry applies when KEY occurs in any argv element after argv[0] or in the
 * script file. The first matching entry wins. Default: exit 0.
 * block:PATH creates PATH.started and waits until PATH exists.
 */
#include <errno.h>
#include <fcntl.h>
#include <signal.h>
#include <stdio.h>
#include <stdlib.h>
#include <string.h>
#include <sys/stat.h>
#include <time.h>
#include <unistd.h>

extern char **environ;

static void hex(FILE *f, const char *s, size_t n) {
  static const char *d = "0123456789abcdef";
  fputc('"', f);
  for (size_t i = 0; i < n; i++) {
    unsigned char c = (unsigned char)s[i];
    fputc(d[c >> 4], f);
    fputc(d[c & 15], f);
  }
  fputc('"', f);
}

static char *read_file(const char *path, size_t *len) {
  struct stat st;
  if (stat(path, &st) != 0 || !S_ISREG(st.st_mode)) return NULL;
  FILE *f = fopen(path, "rb");
  if (!f) return NULL;
  char *buf = malloc((size_t)st.st_size + 1);
  size_t n = fread(buf, 1, (size_t)st.st_size, f);
  fclose(f);
  buf[n] = 0;
  *len = n;
  return buf;
}

static int unhex(const char *s, char *out) {
  int n = 0;
  while (s[0] && s[1]) {
    unsigned v;
    if (sscanf(s, "%2x", &v) != 1) break;
    out[n++] = (char)v;
    s += 2;
  }
  return n;
}

static int memfind(const char *hay, size_t hn, const char *needle) {
  size_t nn = strlen(needle);
  if (nn == 0 || hn < nn) return 0;
  for (size_t i = 0; i + nn <= hn; i++)
    if (memcmp(hay + i, needle, nn) == 0) return 1;
  return 0;
}

static void msleep(void) {
  struct timespec ts = {0, 1000000};
  nanosleep(&ts, NULL);
}

static volatile sig_atomic_t got[65];

static void on_signal(int n) {
  if (n >= 0 && n < 65) got[n] = 1;
}

static void run_action(char *a) {
  if (!strncmp(a, "exit:", 5)) {
    fflush(NULL);
    _exit(atoi(a + 5));
  } else if (!strncmp(a, "sig:", 4)) {
    fflush(NULL);
    int s = atoi(a + 4);
    signal(s, SIG_DFL);
    kill(getpid(), s);
    for (;;) pause();
  } else if (!strncmp(a, "out:", 4)) {
    char *buf = malloc(strlen(a) + 1);
    int n = unhex(a + 4, buf);
    fwrite(buf, 1, (size_t)n, stdout);
    fflush(stdout);
    free(buf);
  } else if (!strncmp(a, "err:", 4)) {
    char *buf = malloc(strlen(a) + 1);
    int n = unhex(a + 4, buf);
    fwrite(buf, 1, (size_t)n, stderr);
    fflush(stderr);
    free(buf);
  } else if (!strncmp(a, "ignore:", 7)) {
    signal(atoi(a + 7), SIG_IGN);
  } else if (!strncmp(a, "trap:", 5)) {
    signal(atoi(a + 5), on_signal);
  } else if (!strncmp(a, "report:", 7)) {
    FILE *f = fopen(a + 7, "w");
    if (f) {
      for (int i = 1; i < 65; i++)
        if (got[i]) fprintf(f, "%d\n", i);
      fclose(f);
    }
  } else if (!strncmp(a, "touch:", 6)) {
    int fd = open(a + 6, O_CREAT | O_WRONLY, 0644);
    if (fd >= 0) close(fd);
  } else if (!strncmp(a, "block:", 6)) {
    char started[4096];
    snprintf(started, sizeof started, "%s.started", a + 6);
    int fd = open(started, O_CREAT | O_WRONLY, 0644);
    if (fd >= 0) close(fd);
    struct stat st;
    while (stat(a + 6, &st) != 0) msleep();
  }
}

int main(int argc, char **argv) {
  /* script file: first argument that names a regular file */
  char *script = NULL;
  size_t script_len = 0;
  for (int i = 1; i < argc && !script; i++) {
    if (strchr(argv[i], '/')) script = read_file(argv[i], &script_len);
  }

  const char *log = getenv("VSH_LOG");
  if (log) {
    char *buf = NULL;
    size_t size = 0;
    FILE *f = open_memstream(&buf, &size);
    fprintf(f, "{\"pid\":%d,\"argv\":[", (int)getpid());
    for (int i = 0; i < argc; i++) {
      if (i) fputc(',', f);
      hex(f, argv[i], strlen(argv[i]));
    }
    fputs("],\"cwd\":", f);
    char cwd[8192];
    if (!getcwd(cwd, sizeof cwd)) cwd[0] = 0;
    hex(f, cwd, strlen(cwd));
    fputs(",\"env\":{", f);
    int first = 1;
    for (char **e = environ; *e; e++) {
      char *eq = strchr(*e, '=');
      if (!eq) continue;
      if (!first) fputc(',', f);
      first = 0;
      hex(f, *e, (size_t)(eq - *e));
      fputc(':', f);
      hex(f, eq + 1, strlen(eq + 1));
    }
    fputs("},\"script\":", f);
    if (script)
      hex(f, script, script_len);
    else
      fputs("null", f);
    struct stat so, se, nul;
    int out_null = 0, err_null = 0;
    if (stat("/dev/null", &nul) == 0) {
      if (fstat(1, &so) == 0 && so.st_rdev == nul.st_rdev && S_ISCHR(so.st_mode)) out_null = 1;
      if (fstat(2, &se) == 0 && se.st_rdev == nul.st_rdev && S_ISCHR(se.st_mode)) err_null = 1;
    }
    fprintf(f, ",\"out_null\":%d,\"err_null\":%d}\n", out_null, err_null);
    fclose(f);
    int fd = open(log, O_CREAT | O_WRONLY | O_APPEND, 0644);
    if (fd >= 0) {
      ssize_t w = write(fd, buf, size);
      (void)w;
      close(fd);
    }
    free(buf);
  }

  const char *mark = getenv("VSH_MARK");
  if (mark && *mark) {
    /* the harness gives just the same file (O_APPEND) as stderr, so echo lines and spawns are
       totally ordered even when this process's own stderr is /dev/null */
    int fd = open(mark, O_WRONLY | O_APPEND);
    if (fd >= 0) {
      ssize_t w = write(fd, "\001SPAWN\n", 7);
      (void)w;
      close(fd);
    }
  }

  const char *plan = getenv("VSH_PLAN");
  if (plan && *plan) {
    char *copy = strdup(plan);
    char *save1 = NULL;
    for (char *entry = strtok_r(copy, ";", &save1); entry; entry = strtok_r(NULL, ";", &save1)) {
      char *eq = strchr(entry, '=');
      if (!eq) continue;
      *eq = 0;
      int match = 0;
      for (int i = 1; i < argc && !match; i++)
        if (strstr(argv[i], entry)) match = 1;
      if (!match && script && memfind(script, script_len, entry)) match = 1;
      if (!match) continue;
      char *save2 = NULL;
      for (char *a = strtok_r(eq + 1, ",", &save2); a; a = strtok_r(NULL, ",", &save2)) run_action(a);
      break;
    }
  }
  return 0;
}
